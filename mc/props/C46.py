"""C46 -- window, cumulative and shift operations are seamless across partitions (DESIGN 5/C46).

E4: exhaustive small scope.  Every case builds one small frame (int column `a`, float column `f` whose NaN positions are
the enumerated mask), cuts it into EVERY consecutive partitioning (empty partitions included) with truthful *known*
divisions, applies one window / cumulative / shift / fill / map_overlap operation through the public dask.dataframe API and
compares the computed result with pandas on the unpartitioned frame (values, dtypes, index, order).
"""
from __future__ import annotations

import itertools

from mc import dfh  # FIRST: installs the pyarrow stand-in and imports dask.dataframe

import numpy as np
import pandas as pd

from mc.run import Hang

ID = "C46"
LEVEL = "exploration"
WATCHDOG_S = 30.0
BUDGET_S = {"quick": 280, "thorough": 3300}
ASSUMPTIONS = [
    "sync scheduler; partitions are built with from_delayed and *truthful known* divisions (strictly increasing; an empty "
    "partition gets an empty half-open interval between two rows, as a filter would leave it)",
    "documented refusals count as `rejected`, never as pass: NotImplementedError('Partition size is less than overlapping "
    "window size') and ValueError('All NaN partition encountered in `fillna`') (ffill/bfill with limit=None)",
    "pct_change is not part of the dask.dataframe API in this tree (no attribute): counted out_of_scope, checked like diff "
    "should it appear",
    "float data are small dyadic rationals, so sums/products are exact in any association order; var/std/skew/kurt are "
    "compared with rtol 1e-9 (pandas uses online updates whose rounding depends on where the window sequence starts)",
    "win_type windows need scipy (absent): outside the alphabet",
]

NROWS = {"quick": 5, "thorough": 6}
MAXPARTS = {"quick": 3, "thorough": 4}

HOURS = [0, 12, 13, 30, 48, 49, 80]  # irregular datetime index (hours)
HOURS_DUP = [0, 0, 12, 13, 13, 30, 48]
INT_DUP = [10, 10, 20, 40, 40, 40, 70]
TWINDOWS = ("1h", "12h", "13h", "24h", "36h", "100h")
TD_ALPHABET = ("0h", "1h", "13h", "30h", "100h")
AGGS_CORE = ("sum",)
AGGS_Q = ("count", "min", "max", "mean", "var", "median")
AGGS_T = AGGS_Q + ("std", "skew", "kurt", "quantile", "apply", "agg", "cov")
CUMS = ("cumsum", "cumprod", "cummin", "cummax")


def RULE(tier):
    n, k = NROWS[tier], MAXPARTS[tier]
    return (
        f"frames of {n} rows (int column a, float column f) x NaN masks of f (every single-run placement; all 2^{n} masks for the "
        f"series forms of cum*/ffill/bfill) x EVERY partitioning into 2..{k} consecutive partitions incl. empty ones, with truthful known "
        f"divisions, on a sorted int index and an irregular DatetimeIndex (thorough: also indexes with duplicates) x operation: rolling(window "
        f"1..{n + 1}, min_periods None/1/2, center) sum + {len(AGGS_Q if tier == 'quick' else AGGS_T)} other aggregations on a reduced mask "
        f"set, time windows {TWINDOWS}, cumsum/cumprod/cummin/cummax x skipna, shift/diff periods -3..3 (+ shift freq), ffill/bfill limit "
        f"None/1/2/3, map_overlap(before, after) with int 0..3 and timedelta overlaps; as DataFrame, as Series and as projection of "
        f"the frame result.  Oracle: computed result equals pandas on the whole frame (values, dtype, index, order). "
        f"non-trivial = >= 2 non-empty partitions and an operation that needs rows of a neighbour (window/periods/limit != 0/1)."
    )


# ------------------------------------------------------------------ data
def make_frame(n, idx, mask, seed, form="frame"):
    rng = np.random.RandomState(seed)
    perm = rng.permutation(7)
    a = (np.arange(7) * 3 % 7 + 1)[perm][:n].astype("int64")
    fvals = np.array([1.5, -2.0, 4.0, 0.5, 3.0, -1.0, 2.5])[perm][:n]
    m = np.array(mask, dtype=bool)
    f = np.where(m, np.nan, fvals)
    cols = {"a": a, "f": f}
    if form == "mixed":
        s = np.array(["x", "yy", "x", "Zz", "yy", "w", "q"], dtype=object)[perm][:n].copy()
        s[m] = None
        t = (pd.Timestamp("2020-01-01") + pd.to_timedelta(a * 36, unit="h")).to_series().reset_index(drop=True)
        t[m] = pd.NaT
        cols["s"] = s
        cols["t"] = t.values
    pdf = pd.DataFrame(cols)
    if idx == "int":
        pdf.index = pd.Index(np.arange(n) * 10 + 10, name="idx")
    elif idx == "dup":
        pdf.index = pd.Index(np.array(INT_DUP[:n]), name="idx")
    elif idx == "dt":
        pdf.index = pd.DatetimeIndex(pd.Timestamp("2021-03-01") + pd.to_timedelta(HOURS[:n], unit="h"), name="ts")
    elif idx == "dtdup":
        pdf.index = pd.DatetimeIndex(pd.Timestamp("2021-03-01") + pd.to_timedelta(HOURS_DUP[:n], unit="h"), name="ts")
    else:
        raise ValueError(idx)
    return pdf


def truthful_divisions(index, parts):
    """strictly increasing divisions describing the consecutive row blocks `parts` truthfully (partition i holds exactly the
    rows with div[i] <= label < div[i+1], last closed); None if a cut would split equal labels (no truthful divisions exist)"""
    n = len(index)
    unit = pd.Timedelta("1min") if isinstance(index, pd.DatetimeIndex) else 1
    b = [0]
    for p in parts:
        b.append(b[-1] + p)
    for x in b[1:-1]:
        if 0 < x < n and index[x - 1] == index[x]:
            return None
    k = len(parts)
    div = [None] * (k + 1)
    for p in sorted(set(b)):
        grp = [i for i in range(k + 1) if b[i] == p]  # boundaries located just before row p (contiguous)
        if p < n:  # the right-most of them is index[p], the others lie just below it
            for r, i in enumerate(reversed(grp)):
                div[i] = index[p] - r * unit
        elif parts[-1] > 0:  # only the final boundary sits at n: closed last interval
            div[k] = index[n - 1]
        else:  # trailing empty partitions: intervals beyond the last label
            for r, i in enumerate(grp):
                div[i] = index[n - 1] + (r + 1) * unit
    return tuple(div)


def single_run_masks(n):
    out = [(0,) * n]
    for a in range(n):
        for b in range(a + 1, n + 1):
            out.append(tuple(1 if a <= i < b else 0 for i in range(n)))
    return out


def all_masks(n):
    return [tuple(m) for m in itertools.product((0, 1), repeat=n)]


def few_masks(n):
    """no NaN / a run crossing the middle / NaN at both ends"""
    h = n // 2
    return [(0,) * n, tuple(1 if h - 1 <= i <= h else 0 for i in range(n)), tuple(1 if i in (0, n - 2, n - 1) else 0 for i in range(n))]


def partitionings(tier):
    n = NROWS[tier]
    return [p for p in dfh.partitionings(n, MAXPARTS[tier]) if len(p) >= 2]


# ------------------------------------------------------------------ case enumeration
FAMILIES = ("roll", "rollagg", "troll", "cum", "shift", "fill", "mo")
NSHARD = {
    "quick": {"roll": 14, "rollagg": 3, "troll": 9, "cum": 9, "shift": 3, "fill": 9, "mo": 3},
    "thorough": {"roll": 40, "rollagg": 24, "troll": 24, "cum": 24, "shift": 8, "fill": 24, "mo": 8},
}


def shards(tier):
    out = []
    for fam in ("shift", "mo", "rollagg", "cum", "fill", "troll", "roll"):
        k = NSHARD[tier][fam]
        for part in range(k):
            out.append((fam, part, k))
    return out


def cases_of(shard, tier):
    fam, part, nparts = shard
    n = NROWS[tier]
    thorough = tier == "thorough"
    allparts = partitionings(tier)
    for pi, parts in enumerate(allparts):
        if pi % nparts != part:
            continue
        if fam == "roll":
            idxs = ("int", "dup") if thorough else ("int",)
            masks = all_masks(n) if thorough else single_run_masks(n)
            for idx in idxs:
                for mask in masks if idx == "int" else few_masks(n):
                    for w in range(1, n + 2):
                        for center in (False, True):
                            for mp in (None, 1, 2) if (thorough or not center) else (None, 1):
                                if mp is not None and mp > w:
                                    continue  # pandas: min_periods must be <= window
                                yield ("roll", n, idx, mask, parts, "frame", w, mp, center, "sum")
        elif fam == "rollagg":
            aggs = AGGS_T if thorough else AGGS_Q
            for mask in few_masks(n):
                for w in (2, 3, n) if thorough else (2, 3):
                    for center in (False, True):
                        for agg in aggs:
                            yield ("roll", n, "int", mask, parts, "frame", w, 1, center, agg)
                    for form in ("series", "proj"):
                        for agg in ("sum", "max") if thorough else ("sum",):
                            yield ("roll", n, "int", mask, parts, form, w, 1, False, agg)
                            if thorough:
                                yield ("roll", n, "int", mask, parts, form, w, None, True, agg)
        elif fam == "troll":
            idxs = ("dt", "dtdup") if thorough else ("dt",)
            for idx in idxs:
                masks = (all_masks(n) if thorough else single_run_masks(n)) if idx == "dt" else few_masks(n)
                for mask in masks:
                    for w in TWINDOWS:
                        for mp in (None, 1, 2):
                            yield ("troll", n, idx, mask, parts, "frame", w, mp, False, "sum")
                for mask in few_masks(n):
                    for w in ("13h", "36h", "100h"):
                        for agg in ("count", "max", "mean") + (("min", "var", "median") if thorough else ()):
                            yield ("troll", n, idx, mask, parts, "frame", w, 1, False, agg)
                        yield ("troll", n, idx, mask, parts, "series", w, 1, False, "sum")
                        yield ("troll", n, idx, mask, parts, "proj", w, 1, False, "sum")
                # centred time windows (pandas >= 1.3 supports them)
                for w in ("13h", "36h"):
                    yield ("troll", n, idx, few_masks(n)[1], parts, "frame", w, 1, True, "sum")
        elif fam == "cum":
            idxs = ("int", "dup") if thorough else ("int",)
            for idx in idxs:
                for op in CUMS:
                    for skipna in (True, False):
                        if idx == "dup":
                            for mask in few_masks(n):
                                yield ("cum", n, idx, mask, parts, "frame", op, skipna)
                            continue
                        for mask in all_masks(n) if thorough else single_run_masks(n):
                            yield ("cum", n, idx, mask, parts, "frame", op, skipna)
                        for mask in all_masks(n):
                            yield ("cum", n, idx, mask, parts, "series", op, skipna)
                        for mask in few_masks(n):
                            yield ("cum", n, idx, mask, parts, "proj", op, skipna)
                            yield ("cum", n, idx, mask, parts, "frame1", op, skipna)
                        yield ("cum", n, idx, (0,) * n, parts, "series_a", op, skipna)
                        yield ("cum", n, idx, (0,) * n, parts, "frame_a", op, skipna)
        elif fam == "shift":
            for idx in ("int", "dt") + (("dup",) if thorough else ()):
                for mask in few_masks(n)[:2]:
                    for per in range(-3, 4):
                        for op in ("shift", "diff", "pct_change"):
                            for form in ("frame", "series"):
                                yield (op, n, idx, mask, parts, form, per, None)
                        yield ("shift", n, idx, mask, parts, "mixed", per, None)
                        if thorough:
                            yield ("shift", n, idx, mask, parts, "proj", per, None)
                            yield ("diff", n, idx, mask, parts, "proj", per, None)
            for per in (-2, -1, 0, 1, 2):
                for freq in ("12h", "1D"):
                    yield ("shift", n, "dt", few_masks(n)[1], parts, "frame", per, freq)
                    yield ("shift", n, "dt", few_masks(n)[1], parts, "series", per, freq)
        elif fam == "fill":
            for op in ("ffill", "bfill"):
                for limit in (None, 1, 2, 3):
                    for mask in all_masks(n) if thorough else single_run_masks(n):
                        yield ("fill", n, "int", mask, parts, "frame", op, limit)
                    for mask in all_masks(n):
                        yield ("fill", n, "int", mask, parts, "series", op, limit)
                    for mask in few_masks(n):
                        yield ("fill", n, "int", mask, parts, "mixed", op, limit)
                        yield ("fill", n, "dt", mask, parts, "frame", op, limit)
                        if thorough:
                            yield ("fill", n, "int", mask, parts, "proj", op, limit)
                            yield ("fill", n, "dup", mask, parts, "frame", op, limit)
        elif fam == "mo":
            for idx in ("int", "dt"):
                for b in range(0, 4):
                    for a in range(0, 4):
                        yield ("mo", n, idx, few_masks(n)[1], parts, "frame", b, a)
                        if thorough:
                            yield ("mo", n, idx, few_masks(n)[1], parts, "series", b, a)
            for idx in ("dt", "dtdup") if thorough else ("dt",):
                for b in TD_ALPHABET:
                    for a in TD_ALPHABET:
                        yield ("mo", n, idx, (0,) * n, parts, "frame", b, a)
        else:
            raise ValueError(fam)


# ------------------------------------------------------------------ user functions for map_overlap / rolling.apply
def stencil(df, nb=0, na=0):
    """sum of the nb previous rows, the row itself and the na next rows (NaN where the stencil leaves the data)"""
    out = df * 0
    for k in range(-na, nb + 1):
        out = out + df.shift(k)
    return out


def time_stencil(df, tb=None, ta=None):
    """for every row: sum of column a over the rows whose label lies in the OPEN interval (t - tb, t + ta)"""
    t = df.index.values
    vals = df["a"].values
    out = [int(vals[(t > ti - tb) & (t < ti + ta)].sum()) for ti in t]
    return df.assign(w=np.array(out, dtype="int64"))


def nansum_raw(x):
    return float(np.nansum(x))


def select(obj, form, after=False):
    """apply the `form` of a case: which object the operation is called on (before) / what is taken from its result (after)"""
    if not after:
        if form == "series":
            return obj["f"]
        if form == "series_a":
            return obj["a"]
        if form == "frame1":
            return obj[["f"]]
        if form == "frame_a":
            return obj[["a"]]
        return obj
    if form == "proj":
        return obj["f"]
    return obj


def operation(case):
    """-> (callable applied alike to the dask and the pandas object, needs-neighbour-rows?)"""
    kind, form = case[0], case[5]
    if kind in ("roll", "troll"):
        w, mp, center, agg = case[6], case[7], case[8], case[9]

        def f(o):
            r = select(o, form).rolling(w, min_periods=mp, center=center)
            if agg == "quantile":
                out = r.quantile(0.25)
            elif agg == "apply":
                out = r.apply(nansum_raw, raw=True)
            elif agg == "agg":
                out = r.agg(["sum", "max"])
            else:
                out = getattr(r, agg)()
            return select(out, form, after=True)

        return f, (kind == "troll" and w != "1h") or (kind == "roll" and w > 1)
    if kind == "cum":
        op, skipna = case[6], case[7]
        return (lambda o: select(getattr(select(o, form), op)(skipna=skipna), form, after=True)), True
    if kind in ("shift", "diff", "pct_change"):
        per, freq = case[6], case[7]
        if kind == "shift":
            return (lambda o: select(select(o, form).shift(per, freq=freq), form, after=True)), (per != 0 and freq is None)
        return (lambda o: select(getattr(select(o, form), kind)(periods=per), form, after=True)), per != 0
    if kind == "fill":
        op, limit = case[6], case[7]
        return (lambda o: select(getattr(select(o, form), op)(limit=limit), form, after=True)), True
    if kind == "mo":
        b, a = case[6], case[7]
        if isinstance(b, int):
            def f(o):
                o = select(o, form)
                if isinstance(o, (pd.DataFrame, pd.Series)):
                    return stencil(o, nb=b, na=a)
                return o.map_overlap(stencil, b, a, nb=b, na=a)

            return f, (a + b) > 0
        tb, ta = pd.Timedelta(b), pd.Timedelta(a)

        def g(o):
            if isinstance(o, pd.DataFrame):
                return time_stencil(o, tb=tb, ta=ta)
            return o.map_overlap(time_stencil, b, a, tb=tb, ta=ta)

        return g, (tb + ta) > pd.Timedelta(0)
    raise ValueError(kind)


# ------------------------------------------------------------------ known findings: narrow input classes
def _blocks(mask, parts):
    b = [0]
    for p in parts:
        b.append(b[-1] + p)
    return [mask[b[i] : b[i + 1]] for i in range(len(parts))]


def known_class(case, failure):
    """narrow input classes of the recorded findings (C46.findings.json); appended to the finding key.  Decided from the
    case alone (plus the failure class for the dtype-only finding), never from the observed values."""
    kind, mask, parts, form = case[0], case[3], case[4], case[5]
    empty = any(p == 0 for p in parts)
    if kind == "cum":
        op, skipna = case[6], case[7]
        blocks = _blocks(mask, parts)
        k = len(parts)
        minmax = op in ("cummin", "cummax")
        series = form in ("series", "proj", "series_a")
        if failure == "wrong-dtype" and form == "frame" and not minmax:
            return "mixed-frame"  # int column next to a float column comes back as float64
        if series:
            if parts[0] == 0 and (minmax or not skipna):
                return "series-leading-empty-partition"
            if minmax and skipna and len(blocks[0]) > 0 and all(blocks[0]):
                return "series-leading-allnan-partition"
            if minmax and not skipna and any(mask):
                first = min(i for i, blk in enumerate(blocks) if any(blk))
                if 1 <= first < k - 1:
                    return "series-skipna-false-nan-in-middle-partition"
            return None
        # DataFrame forms
        if minmax and form in ("frame1", "frame_a"):
            return "single-column-frame"
        if form in ("frame1", "frame_a"):
            if parts[0] == 0:
                return "frame-leading-empty-partition"
        elif minmax and any(p == 0 for p in parts[:-1]):
            return "frame-empty-partition"  # an empty partition that is not the last partition
        elif not minmax and any(parts[i] == 0 and any(parts[i + 1 :]) for i in range(k)):
            return "frame-empty-partition"  # an empty partition followed by data
        if skipna and any(len(blk) > 0 and all(blk) for blk in blocks[:-1]):
            return "frame-allnan-partition"  # a non-last partition whose float column is entirely NaN
        return None
    if kind == "troll" and case[8]:
        return "center"  # centred time window
    if kind == "mo" and not isinstance(case[6], int):
        interior_empty = any(p == 0 for p in parts[1:-1])
        if interior_empty and pd.Timedelta(case[7]) > pd.Timedelta(0):
            return "after-across-empty-partition"
    return None


def opname(case):
    kind = case[0]
    if kind == "roll":
        return f"rolling-{case[9]}"
    if kind == "troll":
        return f"rolling-time-{case[9]}"
    if kind in ("cum", "fill"):
        return case[6]
    if kind == "mo":
        return "map_overlap" if isinstance(case[6], int) else "map_overlap-time"
    if kind == "shift" and case[7] is not None:
        return "shift-freq"
    return kind


def run_case(case, ctx):
    kind, n, idx, mask, parts, form = case[:6]
    if kind == "pct_change" and not hasattr(dfh.dd.DataFrame, "pct_change"):
        ctx.count("out_of_scope_pct_change_absent")
        return
    pdf = make_frame(n, idx, mask, ctx.seed, "mixed" if form == "mixed" else "frame")
    div = truthful_divisions(pdf.index, parts)
    if div is None:
        ctx.count("out_of_scope_no_truthful_divisions")
        return
    f, needs_neighbours = operation(case)
    name = opname(case)
    nontrivial = needs_neighbours and sum(1 for p in parts if p > 0) >= 2
    try:
        want = f(pdf)
    except Hang:
        raise
    except Exception as e:  # noqa: BLE001
        ctx.count("inapplicable")
        ctx.case(case, nontrivial=False, outcome=("ref-raises", type(e).__name__))
        return
    try:
        d = dfh.build(pdf, parts, divisions=div)
        got = f(d).compute()
        exc = None
    except Hang:
        raise
    except Exception as e:  # noqa: BLE001
        got, exc = None, e
    if exc is not None:
        cls = dfh.classify_exc(exc)
        if cls in ("rejected", "out_of_scope"):  # evaluated, but nothing was compared: never counted as non-trivial
            ctx.case(case, nontrivial=False, outcome=(name, cls, type(exc).__name__))
            ctx.count(cls)
            return
        ctx.case(case, nontrivial=nontrivial, outcome=(name, cls, type(exc).__name__))
        sub = known_class(case, "dask-raises")
        ctx.violation(f"{name}:dask-raises:{type(exc).__name__}" + (f":{sub}" if sub else ""), case, f"dask raised {exc!r}; pandas gives\n{want!r}")
        return
    why = dfh.equal(got, want)
    ctx.case(case, nontrivial=nontrivial, outcome=(name, "ok" if why is None else "diff", repr(np.asarray(want).tolist())[:200]))
    if why is None:
        return
    failure = "wrong-dtype" if dfh.equal(got, want, check_dtype=False) is None else "wrong-value"
    sub = known_class(case, failure)
    ctx.violation(f"{name}:{failure}" + (f":{sub}" if sub else ""), case, f"{why}\n got:\n{got!r}\n want:\n{want!r}")


def run_shard(shard, ctx):
    for case in cases_of(shard, ctx.tier):
        if ctx.out_of_time():
            return
        ctx.guard(case, run_case, case, ctx)


def replay(case, ctx):
    run_case(case, ctx)
