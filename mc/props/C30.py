"""C30 -- the array expression engine (array.query-planning) preserves array semantics (DESIGN 5/C30).

Exhaustive enumeration of PROGRAMS over the operations the expression engine implements (creation, elementwise, slicing,
reductions, rechunk, concatenate/stack, map_blocks/map_overlap/blockwise, transpose, repeat), on every base array under
EVERY chunking.  Each program is built and computed three times:

  * NumPy                                    (reference for values / shape / dtype),
  * the classic engine, in the check's worker process (array.query-planning off; reference for .chunks),
  * the expression engine, in a CHILD INTERPRETER started with DASK_ARRAY__QUERY_PLANNING=True (one long-lived child per
    worker, cases streamed over a pipe; the child imports the same step table from this module).

Oracle on the expression engine's result: computed value, shape and dtype equal NumPy's; lazy .shape/.dtype equal the
computed ones; lazy .chunks equal the classic engine's lazy .chunks; every block of the optimized (simplified + lowered)
expression has the declared chunk shape and the blocks reassemble the computed value.
"""
from __future__ import annotations

import atexit
import itertools
import os
import pickle
import subprocess
import sys
import warnings

import numpy as np

from mc import arr, enums
from mc.run import Hang, HarnessError

ID = "C30"
LEVEL = "exploration"
WATCHDOG_S = 20.0  # CPU seconds of the worker per case; the runner adds a 10x wall-clock limit, which is what catches a child that hangs
ASSUMPTIONS = [
    "sync scheduler in both engines; base data are distinct positive integers (from_array) or the creation routines' own values",
    "the expression engine runs in a child interpreter with DASK_ARRAY__QUERY_PLANNING=True (handshake asserts array_expr_enabled() and "
    "the same dask source tree); the classic engine runs in the worker process with query planning off (asserted)",
    "the alphabet is restricted a priori to operations the expression engine implements; NotImplementedError while BUILDING an expression is a "
    "refusal (counted); raised only when the built expression is optimized/lowered at compute time it is a failure",
    "float results are compared with rtol=1e-9*size (summation order may differ), integer/bool results exactly; dtype is part of the value",
    "a deviation from NumPy that the classic engine shows in the same way on the same program (same failure class) belongs to the shared "
    "classic code (C19-C27) and is only counted (shared_with_classic); a failure already shown by the program's prefix is reported at the "
    "prefix (which is a program of its own) and only counted downstream (inherited_from_prefix)",
]

ROOT = os.path.dirname(os.path.dirname(os.path.dirname(os.path.abspath(__file__))))
BASES = [(5,), (2, 3), (3, 2), (3, 4), (2, 2, 2)]
DEPTH2_BASES = [(5,), (2, 3), (3, 2), (2, 2, 2)]  # 40 chunkings


def _da():
    import dask.array as da

    return da


# ---------------------------------------------------------------------------------------------- bases
def make_base(xp, kind, shp, ch, seed):
    """xp is numpy or the dask.array namespace of the running interpreter"""
    is_np = xp is np
    kw = {} if is_np else {"chunks": ch}
    if kind in ("fa", "fa_f4"):
        x = arr.data(shp, seed, dtype="i8" if kind == "fa" else "f4")
        return x if is_np else xp.from_array(x, chunks=ch)
    if kind == "arange":
        return xp.arange(1, shp[0] + 1, **kw)
    if kind == "arange_f":
        return xp.arange(0.5, shp[0], 1.0, **kw)
    if kind == "linspace":
        return xp.linspace(0, 1, shp[0], **({} if is_np else {"chunks": ch[0]}))
    if kind == "ones":
        return xp.ones(shp, **kw)
    if kind == "full":
        return xp.full(shp, 7, **kw)
    if kind == "zeros_i":
        return xp.zeros(shp, dtype="i8", **kw)
    raise ValueError(kind)


BASE_KINDS_1D = ["fa", "fa_f4", "arange", "arange_f", "linspace", "full"]
BASE_KINDS_ND = ["fa", "fa_f4", "full"]


# ---------------------------------------------------------------------------------------------- steps
def _need(x, ndim):
    if x.ndim < ndim:
        raise IndexError(f"step needs ndim >= {ndim}")


def _double(b):
    return b * 2


def _to_f8(b):
    return b.astype("f8")


def _first_col(b):
    return b[..., :1]


def _scale(b, factor=1):
    return (b * factor).astype(b.dtype)  # the callers declare dtype=x.dtype: keep it true for bool / narrow inputs


def _steps():
    S = {}

    def both(name, f, need=0):
        def g(xp, x):
            _need(x, need)
            return f(xp, x)

        S[name] = g

    def split(name, fd, fn, need=0):
        def g(xp, x):
            _need(x, need)
            return fn(x) if xp is np else fd(xp, x)

        S[name] = g

    # ---- elementwise
    both("add1", lambda xp, x: x + 1)
    both("add2", lambda xp, x: x + 2)
    both("rsub", lambda xp, x: 10 - x)
    both("mul_self", lambda xp, x: x * x)
    both("gt", lambda xp, x: x > 2)
    both("truediv", lambda xp, x: x / 2)
    both("mod3", lambda xp, x: x % 3)
    both("neg", lambda xp, x: -x)
    both("abs", lambda xp, x: abs(x))
    both("sqrt", lambda xp, x: xp.sqrt(x))
    both("np_add", lambda xp, x: np.add(x, x))  # __array_ufunc__ dispatch
    both("astype_f4", lambda xp, x: x.astype("f4"))
    both("clip", lambda xp, x: x.clip(2, 5))
    both("and_", lambda xp, x: (x > 2) & (x < 5))
    both("bcast", lambda xp, x: x + x[..., :1], need=1)
    both("add_rev", lambda xp, x: x + x[::-1], need=1)  # operands with mirrored chunks -> unify_chunks in _lower
    split("add_rechunk", lambda da, x: x + x.rechunk(2), lambda x: x + x, need=1)
    both("add_sumkeep", lambda xp, x: x - x.sum(axis=-1, keepdims=True), need=1)
    # ---- slicing
    both("tail", lambda xp, x: x[1:], need=1)
    both("head2", lambda xp, x: x[:2], need=1)
    both("mid", lambda xp, x: x[1:-1], need=1)
    both("rev", lambda xp, x: x[::-1], need=1)
    both("negstep2", lambda xp, x: x[::-2], need=1)
    both("step_last", lambda xp, x: x[..., ::2], need=1)
    both("int_last", lambda xp, x: x[..., 0], need=1)
    both("int0", lambda xp, x: x[-1], need=1)
    both("newaxis", lambda xp, x: x[:, None], need=1)
    both("ellip_none", lambda xp, x: x[..., None])
    both("list0", lambda xp, x: x[[-1, 0]], need=1)
    split("daidx", lambda da, x: x[da.from_array(np.array([1, 0]), chunks=1)], lambda x: x[np.array([1, 0])], need=1)
    # ---- reductions
    both("sum0", lambda xp, x: x.sum(axis=0), need=1)
    both("sum_last", lambda xp, x: x.sum(axis=-1), need=1)
    both("sum0_keep", lambda xp, x: x.sum(axis=0, keepdims=True), need=1)
    both("sum_last_keep", lambda xp, x: x.sum(axis=-1, keepdims=True), need=1)
    both("min0_keep", lambda xp, x: x.min(axis=0, keepdims=True), need=1)
    both("min_last_keep", lambda xp, x: x.min(axis=-1, keepdims=True), need=1)
    both("max0", lambda xp, x: x.max(axis=0), need=1)
    both("mean0", lambda xp, x: x.mean(axis=0), need=1)
    both("sum_all", lambda xp, x: x.sum())
    both("sum_keep", lambda xp, x: x.sum(keepdims=True))
    both("sum01", lambda xp, x: x.sum(axis=(0, 1)), need=2)
    both("mean_keep", lambda xp, x: x.mean(axis=-1, keepdims=True), need=1)
    both("mean_all", lambda xp, x: x.mean())
    both("max_last", lambda xp, x: x.max(axis=-1), need=1)
    both("prod0", lambda xp, x: x.prod(axis=0), need=1)
    both("any0", lambda xp, x: (x > 2).any(axis=0), need=1)
    both("all_all", lambda xp, x: (x > 2).all())
    both("max_gt", lambda xp, x: (x > 2).max(axis=-1), need=1)  # min/max of a non-default dtype
    split("min_split", lambda da, x: x.min(axis=0, split_every=2), lambda x: x.min(axis=0), need=1)
    split("sum_split", lambda da, x: x.sum(split_every=2), lambda x: x.sum())
    both("nansum_last", lambda xp, x: xp.nansum(x, axis=-1), need=1)
    # ---- rechunk
    split("rechunk1", lambda da, x: x.rechunk(1), lambda x: x, need=1)
    split("rechunk2", lambda da, x: x.rechunk(2), lambda x: x, need=1)
    split("rechunk_ax0", lambda da, x: x.rechunk({0: -1}), lambda x: x, need=1)
    split("rechunk_whole", lambda da, x: x.rechunk(-1), lambda x: x, need=1)
    split("rechunk_bal", lambda da, x: x.rechunk(2, balance=True), lambda x: x, need=1)
    # ---- concatenate / stack
    both("concat", lambda xp, x: xp.concatenate([x, x[:1]], axis=0), need=1)
    both("concat_last", lambda xp, x: xp.concatenate([x, x + 1], axis=-1), need=1)
    both("stack_last", lambda xp, x: xp.stack([x, x], axis=-1))
    both("stack0", lambda xp, x: xp.stack([x, -x], axis=0))
    # ---- map_blocks / map_overlap / blockwise
    split("mb_double", lambda da, x: x.map_blocks(_double), lambda x: x * 2)
    split("mb_x2", lambda da, x: x.map_blocks(_scale, factor=2, dtype=x.dtype), lambda x: (x * 2).astype(x.dtype))
    split("mb_x5", lambda da, x: x.map_blocks(_scale, factor=5, dtype=x.dtype), lambda x: (x * 5).astype(x.dtype))
    split("mb_f8", lambda da, x: da.map_blocks(_to_f8, x, dtype="f8"), lambda x: x.astype("f8"))
    split(
        "mb_chunks",
        lambda da, x: x.map_blocks(_first_col, chunks=x.chunks[:-1] + ((1,) * x.numblocks[-1],)),
        None,  # reference needs the chunking: filled in by np_mb_chunks below
        need=1,
    )
    split("map_overlap", lambda da, x: x.map_overlap(_double, depth=1, boundary="reflect"), lambda x: x * 2, need=1)
    split("map_overlap_none", lambda da, x: da.map_overlap(_double, x, depth=1, boundary="none"), lambda x: x * 2, need=1)
    split(
        "blockwise",
        lambda da, x: da.blockwise(np.add, tuple(range(x.ndim)), x, tuple(range(x.ndim)), x, tuple(range(x.ndim)), dtype=x.dtype),
        lambda x: x + x,
        need=1,
    )
    # ---- transpose / repeat / *_like
    both("T", lambda xp, x: x.T)
    both("repeat0", lambda xp, x: xp.repeat(x, 2, axis=0), need=1)
    both("ones_like", lambda xp, x: xp.ones_like(x))
    return S


_STEPS = None


def steps():
    global _STEPS
    if _STEPS is None:
        _STEPS = _steps()
    return _STEPS


# "mb_chunks" depends on the chunking of its input (first column of every block), so it has no NumPy counterpart on the
# whole array: it is offered only as the FIRST step of a program, where the reference can be built from the base chunking.
CHUNK_DEPENDENT = {"mb_chunks"}

ALL = [
    "add1", "add2", "rsub", "mul_self", "gt", "truediv", "mod3", "neg", "abs", "sqrt", "np_add", "astype_f4", "clip", "and_", "bcast", "add_rev",
    "add_rechunk", "add_sumkeep",
    "tail", "head2", "mid", "rev", "negstep2", "step_last", "int_last", "int0", "newaxis", "ellip_none", "list0", "daidx",
    "sum0", "sum_last", "sum0_keep", "sum_last_keep", "min0_keep", "min_last_keep", "max0", "mean0", "sum_all", "sum_keep", "sum01", "mean_keep", "mean_all", "max_last", "prod0", "any0", "all_all", "max_gt", "min_split", "sum_split",
    "nansum_last",
    "rechunk1", "rechunk2", "rechunk_ax0", "rechunk_whole", "rechunk_bal",
    "concat", "concat_last", "stack_last", "stack0",
    "mb_double", "mb_x2", "mb_x5", "mb_f8", "mb_chunks", "map_overlap", "map_overlap_none", "blockwise",
    "T", "repeat0", "ones_like",
]  # fmt: skip
CORE = [
    "truediv", "bcast", "add_rev",
    "tail", "rev", "step_last", "int_last", "newaxis", "daidx",
    "sum0", "mean_keep", "min_split",
    "rechunk2",
    "concat",
    "map_overlap",
    "T", "repeat0",
]  # fmt: skip


def np_mb_chunks(x, ch):
    """reference for mb_chunks as first step: first column (last axis) of every block of the base chunking"""
    starts = np.concatenate([[0], np.cumsum(ch[-1])[:-1]]).astype(int)
    return x[..., starts]


# ---------------------------------------------------------------------------------------------- plans
# (alphabets per position, bases, base kinds)
def plans(tier):
    if tier == "quick":
        return [("d1", (ALL,), BASES, "all"), ("d2", (CORE, CORE), DEPTH2_BASES, "fa")]
    return [("d1", (ALL,), BASES, "all"), ("d2", (ALL, ALL), BASES, "fa"), ("d2c", (CORE, CORE), DEPTH2_BASES, "creation"), ("d3", (CORE, CORE, CORE), DEPTH2_BASES, "fa")]


def RULE(tier):
    if tier == "quick":
        prog = (
            f"every depth-1 program over the {len(ALL)}-step alphabet on every base kind (from_array int64/float32, arange int/float, linspace, full) "
            f"and every depth-2 program over the {len(CORE)}-step core alphabet on from_array bases {DEPTH2_BASES}"
        )
    else:
        prog = (
            f"every program of depth <= 2 over the {len(ALL)}-step alphabet on from_array bases, every depth-2 core program on every base kind, "
            f"every depth-3 program over the {len(CORE)}-step core alphabet on from_array bases {DEPTH2_BASES}"
        )
    return (
        f"{prog}; shapes {BASES} under EVERY chunking. Steps: elementwise/ufunc/broadcast (incl. operands with different chunkings), slices/ints/"
        "None/list/dask-int-array indexing, sum/mean/max/min/prod/any/all/nansum (axis, keepdims, split_every), rechunk (uniform, dict, -1, balance), "
        "concatenate/stack, map_blocks (same chunks, dtype change, chunks=), map_overlap, blockwise, transpose, repeat, ones_like. Each program is "
        "run by NumPy, the classic engine (in-process) and the expression engine (child interpreter, query planning on). Oracle: value/shape/dtype == "
        "NumPy; lazy shape/dtype == computed; lazy chunks == classic engine's; blocks of the optimized expression have the declared shapes and "
        "reassemble the value. non-trivial = base has >= 2 blocks. Plus (both tiers): EVERY unordered pair of "
        f"{len(PAIR_STEPS)} expressions that differ only in a keyword/parameter value of the same block function (reduction axis/keepdims, map_blocks "
        f"kwargs, scalar operand), built from ONE input on {PAIR_BASES} (every chunking), kept alive together and computed alone and in one "
        "dask.compute call: each must equal NumPy, lazy metadata must match, chunks must equal the classic engine's."
    )


def programs(tier):
    seen = set()
    for tag, alphs, bases, kinds in plans(tier):
        for prog in itertools.product(*alphs):
            if any(s in CHUNK_DEPENDENT for s in prog[1:]):
                continue
            key = (prog, tuple(bases), kinds)
            if key in seen:
                continue
            seen.add(key)
            yield prog, bases, kinds


# expressions that are built one after the other from the SAME input, kept alive together, and computed alone and jointly:
# members differ pairwise only in a keyword / parameter value of the same block function (axis, keepdims, map_blocks kwargs, scalar)
PAIR_STEPS = [
    "sum0", "sum_last", "sum_all", "sum0_keep", "sum_last_keep", "min0_keep", "min_last_keep", "max0", "max_last", "mean0", "mean_keep",
    "mb_x2", "mb_x5", "add1", "add2",
]  # fmt: skip
PAIR_BASES = [(2, 3), (3, 2), (2, 2, 2)]  # 24 chunkings


def pair_cases():
    for a, b in itertools.combinations(PAIR_STEPS, 2):
        for shp in PAIR_BASES:
            for ch in enums.chunkings(shp):
                yield ("pair", "fa", shp, ch, (a, b))


NSHARD = {"quick": 64, "thorough": 256}


def shards(tier):
    return [("prog", i, NSHARD[tier]) for i in range(NSHARD[tier])]


def cases_of(shard, tier):
    _, part, nparts = shard
    done = set()
    for pi, (prog, bases, kinds) in enumerate(programs(tier)):
        if pi % nparts != part:
            continue
        for shp in bases:
            ks = ["fa"] if kinds == "fa" else (BASE_KINDS_1D if len(shp) == 1 else BASE_KINDS_ND)
            if kinds == "creation":
                ks = [k for k in ks if k != "fa"]
            for kind in ks:
                for ch in enums.chunkings(shp):
                    case = ("p", kind, shp, ch, prog)
                    if case in done:
                        continue
                    done.add(case)
                    yield case
    for ci, case in enumerate(pair_cases()):
        if ci % nparts == part:
            yield case


# ---------------------------------------------------------------------------------------------- evaluation (both interpreters)
def _exc(e):
    return (type(e).__name__, str(e)[:300])


def eval_dask(case, seed, expr):
    """Build + compute one program with the dask.array of THIS interpreter.  -> plain dict (picklable)."""
    import dask
    from dask.core import flatten

    da = _da()
    _, kind, shp, ch, prog = case
    S = steps()
    out = {"status": "ok"}
    with warnings.catch_warnings():
        warnings.simplefilter("ignore")
        try:
            d = make_base(da, kind, shp, ch, seed)
            step, si = "base", -1
            for si, step in enumerate(prog):
                d = S[step](da, d)
            out["shape"] = tuple(d.shape)
            out["dtype"] = str(d.dtype)
            out["chunks"] = tuple(tuple(c) for c in d.chunks)
        except Hang:
            raise
        except Exception as e:  # noqa: BLE001
            out.update(status="build-exc", exc=_exc(e), step=step, step_index=si)
            return out
        try:
            if expr:
                out["value"] = np.asanyarray(d.compute())
                o = d.optimize()
                keys = o.__dask_keys__()
                dsk = o.__dask_graph__()
                vals = dask.get(dsk, list(flatten(keys)))
                ochunks = tuple(tuple(c) for c in o.chunks)
                out["opt_chunks"] = ochunks
                blocks, problem = _assemble(vals, ochunks, out["shape"])
                out["blocks_value"], out["block_problem"] = blocks, problem
            else:
                v, problem = arr.compute_blocks(d)
                out["value"], out["block_problem"] = v, problem
        except Hang:
            raise
        except Exception as e:  # noqa: BLE001
            out.update(status="compute-exc", exc=_exc(e))
    return out


def eval_pair(case, seed, expr):
    """Build A(x) and B(x) from ONE base x, keep both alive, compute each alone and both in one dask.compute call."""
    import dask

    da = _da()
    _, kind, shp, ch, (sa, sb) = case
    S = steps()
    out = {"status": "ok"}
    with warnings.catch_warnings():
        warnings.simplefilter("ignore")
        try:
            x = make_base(da, kind, shp, ch, seed)
            a = S[sa](da, x)
            b = S[sb](da, x)
            for tag, d in (("a", a), ("b", b)):
                out[tag] = {"shape": tuple(d.shape), "dtype": str(d.dtype), "chunks": tuple(tuple(c) for c in d.chunks)}
        except Hang:
            raise
        except Exception as e:  # noqa: BLE001
            out.update(status="build-exc", exc=_exc(e))
            return out
        try:
            out["a"]["alone"] = np.asanyarray(a.compute())
            out["b"]["alone"] = np.asanyarray(b.compute())
            ja, jb = dask.compute(a, b)
            out["a"]["joint"], out["b"]["joint"] = np.asanyarray(ja), np.asanyarray(jb)
        except Hang:
            raise
        except Exception as e:  # noqa: BLE001
            out.update(status="compute-exc", exc=_exc(e))
    return out


def _assemble(vals, chunks, shape):
    nb = tuple(len(c) for c in chunks)
    if not nb:
        v = np.asanyarray(vals[0])
        return v, (None if v.shape == () else f"0-d block has shape {v.shape}")
    grid = np.empty(nb, dtype=object)
    problem = None
    for idx, v in zip(itertools.product(*[range(k) for k in nb]), vals):
        v = np.asanyarray(v)
        want = tuple(c[i] for c, i in zip(chunks, idx))
        if v.shape != want:
            problem = problem or f"block {idx} has shape {v.shape}, declared {want} (chunks {chunks})"
        grid[idx] = v
    try:
        asm = np.block(grid.tolist()) if grid.size else np.empty(shape)
    except Exception as e:  # noqa: BLE001
        return None, problem or f"blocks do not tile: {e!r}"
    return asm, problem


# ---------------------------------------------------------------------------------------------- the child interpreter
def child_main():
    """runs in the child: python -c 'from mc.props.C30 import child_main; child_main()' with DASK_ARRAY__QUERY_PLANNING=True"""
    out, inp = sys.stdout.buffer, sys.stdin.buffer
    sys.stdout = sys.stderr  # nothing but pickles on the pipe
    import dask

    da = _da()
    hello = {"enabled": bool(da._array_expr_enabled()), "dask_file": os.path.abspath(dask.__file__), "array_module": da.Array.__module__}
    pickle.dump(hello, out)
    out.flush()
    while True:
        try:
            msg = pickle.load(inp)
        except EOFError:
            return
        try:
            res = (eval_pair if msg["case"][0] == "pair" else eval_dask)(msg["case"], msg["seed"], expr=True)
        except BaseException as e:  # noqa: BLE001
            res = {"status": "child-error", "exc": _exc(e)}
        pickle.dump(res, out)
        out.flush()


class Child:
    def __init__(self):
        import dask

        env = dict(os.environ)
        env["DASK_ARRAY__QUERY_PLANNING"] = "True"
        env["PYTHONPATH"] = ROOT + (os.pathsep + env["PYTHONPATH"] if env.get("PYTHONPATH") else "")
        self.p = subprocess.Popen(
            [sys.executable, "-c", "from mc.props.C30 import child_main; child_main()"],
            stdin=subprocess.PIPE,
            stdout=subprocess.PIPE,
            stderr=subprocess.DEVNULL,
            env=env,
            cwd=ROOT,
        )
        try:
            hello = pickle.load(self.p.stdout)
        except Exception as e:  # noqa: BLE001
            self.kill()
            raise HarnessError(f"C30: expression-engine child did not start: {e!r}")
        if not hello.get("enabled") or "_array_expr" not in hello.get("array_module", ""):
            self.kill()
            raise HarnessError(f"C30: query planning is not enabled in the child: {hello}")
        if hello["dask_file"] != os.path.abspath(dask.__file__):
            self.kill()
            raise HarnessError(f"C30: child imports dask from {hello['dask_file']}, parent from {dask.__file__}")

    def ask(self, case, seed):
        pickle.dump({"case": case, "seed": seed}, self.p.stdin)
        self.p.stdin.flush()
        return pickle.load(self.p.stdout)

    def kill(self):
        try:
            self.p.kill()
            self.p.wait(timeout=5)
        except Exception:  # noqa: BLE001
            pass


_CHILD = None
_CHILD_PID = None


def child():
    global _CHILD, _CHILD_PID
    if _CHILD is None or _CHILD_PID != os.getpid() or _CHILD.p.poll() is not None:
        _CHILD = Child()
        _CHILD_PID = os.getpid()
    return _CHILD


def drop_child():
    global _CHILD
    if _CHILD is not None and _CHILD_PID == os.getpid():
        _CHILD.kill()
    _CHILD = None


atexit.register(drop_child)


def ask_child(case, seed):
    for attempt in (0, 1):
        try:
            return child().ask(case, seed)
        except Hang:
            drop_child()
            raise
        except (EOFError, BrokenPipeError, pickle.UnpicklingError, OSError) as e:
            drop_child()
            if attempt:
                raise HarnessError(f"C30: expression-engine child died twice on {case!r}: {e!r}")
    raise AssertionError


# ---------------------------------------------------------------------------------------------- the oracle
def np_eval(case, seed):
    """-> list of NumPy values: the base and the result of every step"""
    _, kind, shp, ch, prog = case
    S = steps()
    ys = [np.asanyarray(make_base(np, kind, shp, ch, seed))]
    for s in prog:
        if s == "mb_chunks":
            _need(ys[-1], 1)
            y = np_mb_chunks(ys[-1], ch)
        else:
            y = S[s](np, ys[-1])
        ys.append(np.asanyarray(y))
    return ys


def _tol(want):
    return 1e-9 * max(int(want.size), 1) if want.dtype.kind in "fc" else 0.0


# steps that combine the array with a PYTHON scalar
SCALAR_STEPS = {"add1", "add2", "rsub", "truediv", "mod3", "clip", "concat_last"}
DEFAULT_DTYPES = ("int64", "float64", "bool", "complex128")


def known_class(case, cls, got, ys):
    """narrow input classes of recorded findings (C30.findings.json) -> (op, suffix) or None"""
    prog = case[4]
    msg = got.get("exc", ("", ""))[1]
    last = prog[-1] if prog else "base"
    if cls == "expr-raises:AttributeError" and got.get("step") == "list0" and "'Shuffle' object has no attribute '_token'" in msg:
        return "list0", "list-index"
    if cls == "expr-raises:ValueError" and last == "daidx" and msg.startswith("Shapes do not align"):
        return "daidx", "offset-dep-misaligned"
    if cls == "expr-raises:NotImplementedError" and got["status"] == "compute-exc" and msg == "" and last in ("add_rev", "add_rechunk"):
        return "elemwise", "operands-with-different-chunks"
    if cls == "wrong-dtype" and last in SCALAR_STEPS and str(ys[-2].dtype) not in DEFAULT_DTYPES:
        return "elemwise", "python-scalar-promotes"
    if cls == "lazy-dtype" and last in ("max_last", "max_gt", "min_split", "max0") and tuple(got.get("shape", (1,))) == () and got.get("dtype") == "int64":
        return "minmax", "0-d-result"
    return None


def judge(case, seed, counts):
    """Evaluate one program in NumPy, the classic engine and the expression engine.
    -> None (not applicable / refused) | (got, outcome, [(key, detail)...])"""
    da = _da()
    if da._array_expr_enabled():
        raise HarnessError("C30: query planning is enabled in the worker process; the classic engine must run here")
    prog = case[4]
    last = prog[-1] if prog else "base"
    with warnings.catch_warnings():
        warnings.simplefilter("ignore")
        try:
            ys = np_eval(case, seed)
            want = ys[-1]
        except Hang:
            raise
        except Exception:  # noqa: BLE001
            counts.append("inapplicable")
            return None
    classic = eval_dask(case, seed, expr=False)
    got = ask_child(case, seed)
    if got["status"] == "child-error":
        raise HarnessError(f"C30: child failed outside the evaluated program: {got['exc']}")

    # failure class of the classic engine on the same program: a deviation from NumPy that the classic engine shows in the
    # same way belongs to the shared classic code (properties C19-C27), not to the expression engine
    if classic["status"] != "ok":
        classic_cls = f"expr-raises:{classic['exc'][0]}"
    elif arr.equal(classic["value"], want, exact_dtype=False, rtol=_tol(want)):
        classic_cls = "wrong-value"
    elif classic["value"].dtype != want.dtype:
        classic_cls = "wrong-dtype"
    else:
        classic_cls = None

    found = []

    def report(cls, detail):
        if cls == classic_cls:
            counts.append("shared_with_classic")
            return
        op = got.get("step", last)  # the step that failed to build, else the program's last step
        k = known_class(case, cls, got, ys)
        sub = ""
        if k:
            op, sub = k[0], ":" + k[1]
        found.append((f"{op}:{cls}{sub}", detail))

    if got["status"] != "ok":
        name, msg = got["exc"]
        if name == "NotImplementedError" and got["status"] == "build-exc":
            # refusal while BUILDING the expression (unsupported API).  A NotImplementedError that only appears when the built
            # expression is optimized/lowered at compute time is not a refusal: the engine accepted the program.
            counts.append("rejected")
            return None
        where = "building" if got["status"] == "build-exc" else "computing"
        report(f"expr-raises:{name}", f"expression engine raised {name}({msg!r}) while {where}; NumPy gives {want!r}; classic engine: {classic['status']}")
        return got, (got["status"], got.get("step", last), name), found
    v = got["value"]
    outcome = (got["shape"], got["dtype"], got["chunks"])
    why = arr.equal(v, want, exact_dtype=False, rtol=_tol(want))
    if why:
        report("wrong-value", f"expr engine vs NumPy: {why}")
        return got, outcome, found
    if v.dtype != want.dtype:
        report("wrong-dtype", f"expr engine computes dtype {v.dtype}, NumPy {want.dtype} (classic engine: {classic.get('dtype')})")
    if tuple(got["shape"]) != v.shape:
        report("lazy-shape", f"lazy shape {got['shape']} != computed {v.shape}")
    if got["dtype"] != str(v.dtype):
        report("lazy-dtype", f"lazy dtype {got['dtype']} != computed {v.dtype} (classic engine lazy dtype: {classic.get('dtype')})")
    if got["block_problem"]:
        report("block-shape", f"optimized expression: {got['block_problem']}")
    elif got["blocks_value"] is None or arr.equal(got["blocks_value"], v, exact_dtype=False, rtol=_tol(want)):
        report("reassemble", f"blocks of the optimized expression placed by index != compute(): {got['blocks_value']!r} vs {v!r}")
    if tuple(tuple(c) for c in got["opt_chunks"]) != tuple(got["chunks"]):
        report("optimized-chunks", f"chunks change under optimize(): {got['chunks']} -> {got['opt_chunks']}")
    if classic["status"] == "ok" and tuple(classic["chunks"]) != tuple(got["chunks"]):
        report("chunks-differ-from-classic", f"expr engine chunks {got['chunks']} != classic engine chunks {classic['chunks']}")
    return got, outcome, found


def run_pair(case, ctx):
    _, kind, shp, ch, (sa, sb) = case
    S = steps()
    with warnings.catch_warnings():
        warnings.simplefilter("ignore")
        try:
            x = make_base(np, kind, shp, ch, ctx.seed)
            want = {"a": np.asanyarray(S[sa](np, x)), "b": np.asanyarray(S[sb](np, x))}
        except Hang:
            raise
        except Exception:  # noqa: BLE001
            ctx.count("inapplicable")
            return
    classic = eval_pair(case, ctx.seed, expr=False)
    got = ask_child(case, ctx.seed)
    if got["status"] == "child-error":
        raise HarnessError(f"C30: child failed outside the evaluated program: {got['exc']}")
    ctx.case(case, nontrivial=any(len(c) >= 2 for c in ch), outcome=(got["status"], got.get("a", {}).get("shape"), got.get("b", {}).get("shape")))
    found = []
    if got["status"] != "ok":
        name, msg = got["exc"]
        if name == "NotImplementedError" and got["status"] == "build-exc":
            ctx.count("rejected")
            return
        if classic["status"] != "ok" and classic["exc"][0] == name:
            ctx.count("shared_with_classic")
            return
        found.append((f"pair:expr-raises:{name}", f"pair ({sa}, {sb}) kept alive together: expression engine raised {name}({msg!r}); classic engine: {classic['status']}"))
    else:
        for tag, step in (("a", sa), ("b", sb)):
            g, w = got[tag], want[tag]
            for how in ("alone", "joint"):
                why = arr.equal(g[how], w, rtol=_tol(w))
                if why:
                    if classic["status"] == "ok" and arr.equal(classic[tag][how], w, rtol=_tol(w)):
                        ctx.count("shared_with_classic")
                    else:
                        found.append((f"{step}:pair-wrong-value:{how}", f"{step}(x) built {'first' if tag == 'a' else 'second'} in the pair ({sa}, {sb}) and computed {how}: {why}"))
            if tuple(g["shape"]) != g["alone"].shape or g["dtype"] != str(g["alone"].dtype):
                found.append((f"{step}:pair-lazy-metadata", f"lazy {g['shape']}/{g['dtype']} vs computed {g['alone'].shape}/{g['alone'].dtype} in the pair ({sa}, {sb})"))
            if classic["status"] == "ok" and tuple(classic[tag]["chunks"]) != tuple(g["chunks"]):
                found.append((f"{step}:pair-chunks-differ-from-classic", f"{g['chunks']} vs classic {classic[tag]['chunks']} in the pair ({sa}, {sb})"))
    if not found:
        return
    # attribution: a member that already fails as a single (depth-1) program is reported there
    for step in (sa, sb):
        pres = judge(("p", kind, shp, ch, (step,)), ctx.seed, [])
        if pres is not None and pres[2]:
            ctx.count("inherited_from_prefix")
            return
    for key, detail in found:
        ctx.violation(key, case, detail)


def run_case(case, ctx):
    if case[0] == "pair":
        return run_pair(case, ctx)
    counts = []
    res = judge(case, ctx.seed, counts)
    for c in counts:
        ctx.count(c)
    if res is None:
        return
    got, outcome, found = res
    prog = case[4]
    ctx.case(case, nontrivial=any(len(c) >= 2 for c in case[3]), outcome=outcome)
    if not found:
        return
    # attribution: every prefix of a program is a program of its own in the enumeration.  A failure that the prefix already
    # shows (an expression that cannot be built, a wrong dtype carried along) is reported there, not again downstream.
    if len(prog) >= 2:
        if got["status"] == "build-exc" and got.get("step_index", len(prog) - 1) < len(prog) - 1:
            ctx.count("inherited_from_prefix")
            return
        pres = judge(case[:4] + (prog[:-1],), ctx.seed, [])
        if pres is not None and pres[2]:
            ctx.count("inherited_from_prefix")
            return
    for key, detail in found:
        ctx.violation(key, case, detail)


def run_shard(shard, ctx):
    for case in cases_of(shard, ctx.tier):
        if ctx.out_of_time():
            return
        ctx.guard(case, run_case, case, ctx)


def replay(case, ctx):
    try:
        run_case(case, ctx)
    finally:
        drop_child()
