"""C42 -- lazy DataFrame metadata (._meta) matches computed results and every computed partition (DESIGN 5/C42)."""
from __future__ import annotations

from mc.props import _dfprog as P  # first: installs the pyarrow stand-in through mc.dfh

import types

import numpy as np
import pandas as pd

import dask
from mc import dfh
from mc.run import Hang

ID = "C42"
LEVEL = "exploration"
WATCHDOG_S = 60.0
FRAMES = ("num", "str", "bool", "dt", "cat", "nullable", "sorted")
NROWS = 6


def base_frame(fname):
    """the 6 shared base frames + 'sorted' = the num frame with its rows ordered by column a, so that a is PRESORTED across any
    consecutive partitioning (set_index / sort_values fast paths)"""
    frames = dfh.base_frames(DATA_SEED, NROWS)
    if fname == "sorted":
        return frames["num"].sort_values("a").reset_index(drop=True)
    return frames[fname]
ASSUMPTIONS = [
    "sync scheduler; pyarrow stand-in (string columns are pandas 'str'/object backed, dataframe.convert-string=False)",
    "programs are the row-wise alphabet of C36 plus reductions, groupby, joins/concat, sort/shuffle/dedup and window operations (the families of C37-C40, C46); "
    "pandas is used only to type the alphabet (a step pandas rejects is dropped) and to supply meta= for map/apply",
    "the oracle is dfh.meta_problem (type, column names and order, dtypes, Series name, index names, index dtype of non-empty results) applied to the computed "
    "object and to every partition computed separately through .partitions[i]; plus: a scalar meta needs a scalar result, Index names must agree",
    "documented difference: a categorical whose categories are UNKNOWN in meta only has to compute to a categorical (categories are data)",
    "the frames are the same for every VERIF_SEED (the seed only rotates the shard order): which dtype pandas gives a partition depends on the values it holds, "
    "so seed-dependent data would make the set of finding keys seed-dependent",
    "a dask exception on a program is counted (dask_raises), not a C42 violation: C42 speaks about results that exist (C36-C40/C46 own the crashes)",
]

CONFIGS = [
    ("range", (0, 3, 0, 3), "auto"),  # unknown divisions, empty partitions
    ("datetime", (3, 3), "auto"),  # known divisions, datetime index
    ("sorted_dup", (2, 1, 3), "auto"),  # known divisions, duplicated labels
    ("sorted_unique", (2, 4), "unknown"),
    ("unsorted", (1, 2, 3), "auto"),
    ("range", (6,), "auto"),
    ("datetime", (1, 1, 4), "unknown"),
    ("sorted_unique", (6, 0), "auto"),
]
NSH = {"M1": 4, "M2": 6}
DATA_SEED = 0  # see ASSUMPTIONS: the data do not depend on VERIF_SEED


def RULE(tier):
    common = (
        "7 base frames (int/float+NaN/bool/str/datetime/categorical/nullable columns, and the num frame with a presorted column; 6 rows).  Union alphabet = row-wise alphabet of C36 (~80 frame steps, 40-60 per series "
        "kind) + extended alphabet (~190 frame steps: every reduction x axis/numeric_only, describe/quantile/mode/cov/corr, nlargest, sort_values/set_index/reset_index/"
        "drop_duplicates/shuffle/repartition, set_index with every drop/append combination, ~75 groupby forms, 27 merge/join/concat/merge_asof forms incl. concat of operands whose shared columns have "
        "the same dtype kind but another width (int64/int32/int8, float64/float32, Int64/Int32), ~30 rolling/cumulative/shift/diff/fill forms, loc/iloc/head/tail/melt/"
        "pivot_table/query/eval; ~70 series steps).  For every program: the computed object AND every partition computed separately (.partitions[i]) vs ._meta.  "
        "non-trivial = >= 2 input partitions.  "
    )
    if tier == "quick":
        return common + (
            "M1: EVERY 1-step program x 3 configurations (unknown divisions with empty partitions / known divisions on a datetime index / known divisions with duplicated "
            "labels).  M2: every 2-step program (column -> any series step) and (set_index | reset_index | empty filter | astype category -> core step) x 2 configurations."
        )
    return common + "M1: every 1-step program x 8 configurations; M2: EVERY 2-step program core-prefix x full alphabet (~30k programs) x 4 configurations."


def shards(tier):
    out = []
    for fam in ("M1", "M2"):
        n = NSH[fam] * (4 if tier == "thorough" and fam == "M2" else 1)
        for f in FRAMES:
            if fam == "M2" and tier == "quick" and f == "sorted":
                continue  # quick: the presorted frame meets every 1-step program; 2-step programs on it are in the thorough tier
            for part in range(n):
                out.append((fam, f, part, n))
    return out


def cases_of(shard, tier, seed, counters=None):
    fam, fname, part, n = shard
    pdf0 = base_frame(fname)
    pick = lambda i: i % n == part  # noqa: E731
    if fam == "M1":
        levels, configs = ("full",), (CONFIGS[:3] if tier == "quick" else CONFIGS)
    elif tier == "quick":
        levels, configs = ("mini", "full"), CONFIGS[:2]
    else:
        levels, configs = ("core", "full"), CONFIGS[:4]
    for kind in sorted({c[0] for c in configs}):
        root = dfh.with_index(pdf0, kind)
        for prog, xs in P.enumerate_programs(root, levels, first_filter=pick, counters=counters, steps=P.ext_steps_for):
            if len(prog) != len(levels):
                continue
            if fam == "M2" and tier == "quick" and prog[0][0] != "col" and prog[1] not in P.ext_steps_for(xs[1], "core"):
                continue
            for c in configs:
                if c[0] == kind:
                    yield (fam, fname, kind, c[1], c[2], prog), xs


# ------------------------------------------------------------------------------------------------ oracle
def _unknown_cat(dtype):
    from dask.dataframe.utils import UNKNOWN_CATEGORIES

    return isinstance(dtype, pd.CategoricalDtype) and UNKNOWN_CATEGORIES in dtype.categories


def meta_vs(meta, computed):
    """[] or list of (class, cause, message): does `computed` agree with the lazy meta (statement of C42)?  One entry per
    disagreeing (meta dtype -> computed dtype) pair, so that the finding key names the exact disagreement."""
    if isinstance(meta, (pd.DataFrame, pd.Series, pd.Index)):
        m2, c2 = meta, computed
        # documented: unknown categoricals only promise 'categorical'
        if isinstance(meta, pd.DataFrame) and isinstance(computed, pd.DataFrame) and list(meta.columns) == list(computed.columns) and meta.columns.is_unique:
            unk = [c for c in meta.columns if _unknown_cat(meta[c].dtype)]
            for c in unk:
                if not isinstance(computed[c].dtype, pd.CategoricalDtype):
                    return [("dtype", f"category->{computed[c].dtype}", f"meta column {c!r} is an (unknown) categorical, computed dtype {computed[c].dtype}")]
            if unk:
                m2, c2 = meta.drop(columns=unk), computed.drop(columns=unk)
        elif isinstance(meta, (pd.Series, pd.Index)) and type(meta) is type(computed) and _unknown_cat(meta.dtype):
            if not isinstance(computed.dtype, pd.CategoricalDtype):
                return [("dtype", f"category->{computed.dtype}", f"meta is an (unknown) categorical, computed dtype {computed.dtype}")]
            m2, c2 = meta.astype(object), computed.astype(object)
        if isinstance(m2, (pd.DataFrame, pd.Series)) and isinstance(c2, (pd.DataFrame, pd.Series)) and _unknown_cat(m2.index.dtype) and isinstance(c2.index.dtype, pd.CategoricalDtype):
            m2, c2 = m2.copy(deep=False), c2.copy(deep=False)
            m2.index, c2.index = m2.index.astype(object), c2.index.astype(object)
        msg = dfh.meta_problem(types.SimpleNamespace(_meta=m2), c2)
        if msg is None and isinstance(m2, pd.Index) and list(m2.names) != list(c2.names):
            msg = f"meta index names {list(m2.names)} != computed {list(c2.names)}"
        if msg is None:
            return []
        return _classify(msg, m2, c2)
    # scalar meta
    if isinstance(computed, (pd.DataFrame, pd.Series, pd.Index)):
        return [("type", f"scalar->{type(computed).__name__}", f"meta is a scalar ({type(meta).__name__}), computed {type(computed).__name__}")]
    return []


def _dt(t):
    """dtype name without data (categories are data)"""
    return "category" if isinstance(t, pd.CategoricalDtype) else str(t)


def _classify(msg, meta, computed):
    if msg.startswith("meta is"):
        return [("type", f"{type(meta).__name__}->{type(computed).__name__}", msg)]
    if msg.startswith("meta columns"):
        same = sorted(map(str, meta.columns)) == sorted(map(str, computed.columns))
        return [("columns", "order" if same else "names", msg)]
    if msg.startswith("meta dtypes differ"):
        pairs = sorted({f"{_dt(meta.dtypes.iloc[i])}->{_dt(computed.dtypes.iloc[i])}" for i in range(len(meta.columns)) if meta.dtypes.iloc[i] != computed.dtypes.iloc[i]})
        return [("dtype", p, msg) for p in pairs]
    if msg.startswith("meta dtype"):
        return [("dtype", f"{_dt(meta.dtype)}->{_dt(computed.dtype)}", msg)]
    if msg.startswith("meta name"):
        return [("name", "series-name", msg)]
    if msg.startswith("meta index names"):
        return [("index-names", "index-names", msg)]
    if msg.startswith("meta index dtype"):
        return [("index-dtype", f"{_dt(meta.index.dtype)}->{_dt(computed.index.dtype)}", msg)]
    return [("check-raised", "check-raised", msg)]


QUIET = ("ok", "dask_raises", "not_lazy", "out_of_scope", "unsupported_api")


def evaluate(case, pxs, seed):
    """-> (status, detail, pxs, info)"""
    fam, fname, kind, parts, divmode, prog = case[:6]
    root = dfh.with_index(base_frame(fname), kind)
    if pxs is None:
        with np.errstate(all="ignore"):
            pxs = P.run_pandas(prog, root, None)
    droot = dfh.build(root, parts, divisions="auto" if divmode == "auto" else None)
    try:
        with np.errstate(all="ignore"):
            d = P.run_dask(prog, droot, pxs, root)
            if not (hasattr(d, "compute") and hasattr(d, "expr")):
                return "not_lazy", type(d).__name__, pxs, 0
            meta = d._meta
            computed = d.compute()
            nout = d.npartitions if getattr(d, "ndim", 0) else 1
            problems = [(f"meta-{c}", cause, "computed object: " + m) for c, cause, m in meta_vs(meta, computed)]
            if not problems and isinstance(meta, (pd.DataFrame, pd.Series, pd.Index)) and hasattr(d, "partitions"):
                pieces = dask.compute(*[d.partitions[i] for i in range(d.npartitions)])
                seen = set()
                for i, piece in enumerate(pieces):
                    for c, cause, m in meta_vs(meta, piece):
                        if len(piece) == 0:
                            cause = "empty-partition"  # one defect per operation: an empty partition keeps pandas' empty-input result schema
                        if (c, cause) not in seen:
                            seen.add((c, cause))
                            problems.append((f"partition-meta-{c}", cause, f"partition {i} of {d.npartitions} ({len(piece)} rows): " + m))
            if problems:
                return "fail", problems, pxs, nout
    except Hang:
        raise
    except P.UnsupportedAPI as e:
        return "unsupported_api", str(e), pxs, 0
    except dfh.PyArrowUnavailable as e:
        return "out_of_scope", str(e), pxs, 0
    except Exception as e:  # noqa: BLE001
        return "dask_raises", repr(e)[:300], pxs, 0
    return "ok", None, pxs, nout


def first_failing_prefix(case, seed):
    prog = case[5]
    for k in range(1, len(prog)):
        r = evaluate(case[:5] + (prog[:k],), None, seed)
        if r[0] not in QUIET:
            return k, r
    return len(prog), None


def input_class(x):
    if isinstance(x, pd.DataFrame):
        return "frame[" + "+".join(sorted({P.kind_of(t) for t in x.dtypes})) + "]"
    if isinstance(x, pd.Series):
        return "series[" + P.kind_of(x.dtype) + "]"
    return type(x).__name__


def run_case(case, ctx, pxs=None):
    fam, fname, kind, parts, divmode, prog = case[:6]
    status, detail, pxs, nout = evaluate(case, pxs, ctx.seed)
    ctx.case(case, nontrivial=len(parts) >= 2, outcome=(P.summary(pxs[-1]), status))
    if status == "ok":
        return
    if status in QUIET:
        ctx.count(status)
        return
    k = len(prog)
    if len(prog) > 1:
        k, r = first_failing_prefix(case, ctx.seed)
        if r is not None:
            detail = r[1]
    step = prog[k - 1]
    for cls, cause, msg in detail:
        ctx.violation(f"{P.chain_sig(step)}:{cls}:{cause}", case, f"step {k} of {len(prog)} applied to {input_class(pxs[k - 1])}: {msg}")


def run_shard(shard, ctx):
    counters = {}
    for case, xs in cases_of(shard, ctx.tier, ctx.seed, counters):
        if ctx.out_of_time():
            break
        ctx.guard(case, run_case, case, ctx, xs)
    for name, n in counters.items():
        ctx.count(name, n)


def replay(case, ctx):
    run_case(case, ctx)
