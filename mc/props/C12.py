"""C12 -- tokens are deterministic and distinct values get distinct tokens (DESIGN 5/C12).
E4: all pairs over a constructed universe, decided by grouping on the token."""
from __future__ import annotations

import copy
import dataclasses
import functools
import itertools
import json
import os
import pickle
import subprocess
import sys

from mc.run import Hang

ID = "C12"
LEVEL = "exploration"
WATCHDOG_S = 300.0
ASSUMPTIONS = [
    "value equality is decided by an independent structural oracle canon(): type, dtype (incl. byte order), shape, cell values (NaN==NaN, "
    "-0.0 != 0.0), index/columns/names, container shape; memory layout / strides / block placement are NOT part of a value",
    "injectivity is checked for ALL pairs by grouping the universe on the token; determinism by re-tokenising, deepcopy, pickle round "
    "trip, independent reconstruction, and (plain data) two child interpreters with PYTHONHASHSEED 1 and 2",
]

NPARTS = 16


def RULE(tier):
    return (
        "universe = builtin scalars (ints incl. bools/0/1/-0.0/0.0/nan, complex, str/bytes with the same characters, None) ; all lists/tuples "
        "of length <= 2 over 9 scalars, sets/frozensets, dicts (<= 2 items, both insertion orders), depth-2 nestings over 14 representative "
        "containers, a self-referential list; numpy: EVERY 0/1 filling of shapes (),(1,),(2,),(4,),(2,2),(1,2),(2,1) x 12 dtypes (i1,<i2,>i2,i8,u8,"
        "f4,f8,bool,M8[s],M8[D],S1,U1) x layouts (C, F, transposed view, [::2] view of a longer buffer, reversed view, broadcast stride 0, memmap); "
        "structured arrays over 6 record dtypes with equal item sizes; object arrays over {'a','b','c','a-b','b-c','-','',b'a'} of length <= 2 (+3 for the dash family); pandas Series/Index/MultiIndex/"
        "Categorical/DataFrame over the same cells incl. every column construction order (block placement); dataclasses, partials, lambdas. "
        "Oracle: token(a)==token(b) => canon(a)==canon(b) for all pairs; token stable under repeat/deepcopy/pickle/rebuild/hash seed. "
        "non-trivial = every value (each takes part in the all-pairs grouping)."
    )


# ------------------------------------------------------------------ descriptors -> values
SCALARS = [0, 1, -1, 2, 255, 256, 2**64, True, False, 0.0, -0.0, 1.0, 1.5, float("nan"), float("inf"), 0j, 1j, 1 + 0j, "", "a", "b", "ab", "1", "0", "None", "True", b"", b"a", b"ab", b"1", None]
S9 = [0, 1, "a", "1", None, 1.0, b"a", True, "0"]
DTYPES = ["i1", "<i2", ">i2", "i8", "u8", "f4", "f8", "bool", "M8[s]", "M8[D]", "S1", "U1"]
SHAPES = [(), (1,), (2,), (4,), (2, 2), (1, 2), (2, 1)]
LAYOUTS = ["C", "F", "T", "step2", "rev", "bcast", "memmap"]
OSTR = ["a", "b", "c", "a-b", "b-c", "-", "", b"a"]
STRUCT_DTYPES = [[("x", "<i4"), ("y", "<i4")], [("lon", "<i4"), ("lat", "<i4")], [("x", "<i4"), ("y", "<f4")], [("x", "<i8")], [("x", "<i4"), ("y", "<i4"), ("z", "<i4")], [("y", "<i4"), ("x", "<i4")]]


def f_plain(x, y=0):
    return x + y


def g_plain(x, y=0):
    return x - y


@dataclasses.dataclass
class DA:
    x: object
    y: object = 0


@dataclasses.dataclass
class DB:
    x: object
    y: object = 0


LAMBDAS = {
    "inc1": lambda x: x + 1,
    "inc2": lambda x: x + 2,
    "inc1b": lambda x: x + 1,
    "mul": lambda x: x * 1,
    "two": lambda x, y: x + y,
    "kw": lambda x, y=1: x + y,
    "kw2": lambda x, y=2: x + y,
}


def _closure(c):
    return lambda x: x + c


def descriptors():
    out = []
    for i, _ in enumerate(SCALARS):
        out.append(("scalar", i))
    # containers of depth 1
    d1 = []
    for L in (0, 1, 2):
        for t in itertools.product(range(len(S9)), repeat=L):
            d1.append(("list", t))
            d1.append(("tuple", t))
    for L in (0, 1, 2):
        for t in itertools.combinations(range(len(S9)), L):
            d1.append(("set", t))
            d1.append(("frozenset", t))
    DK = [2, 0, 3]  # keys 'a', 0, '1'
    for t in itertools.product(range(len(S9)), repeat=1):
        for k in DK:
            d1.append(("dict", ((k, t[0]),)))
    for k1, k2 in itertools.permutations(DK, 2):
        for v1 in range(0, len(S9), 2):
            for v2 in range(0, len(S9), 3):
                d1.append(("dict", ((k1, v1), (k2, v2))))
    out += d1
    reps = [("list", ()), ("list", (0,)), ("list", (0, 1)), ("list", (1, 0)), ("tuple", ()), ("tuple", (0,)), ("tuple", (0, 1)), ("set", (0, 1)),
            ("dict", ((2, 0),)), ("dict", ((2, 1),)), ("dict", ((2, 0), (0, 1))), ("frozenset", (0,)), ("list", (2,)), ("tuple", (2, 3))]
    atoms = [("s", 0), ("s", 1), ("s", 2)]
    pool = [("r", i) for i in range(len(reps))] + atoms
    for L in (1, 2):
        for t in itertools.product(range(len(pool)), repeat=L):
            if all(pool[i][0] == "s" for i in t):
                continue
            out.append(("nest", "list", t))
            out.append(("nest", "tuple", t))
            if L == 1:
                out.append(("nest", "dict", t))
    out.append(("reclist", 0))
    out.append(("reclist", 1))
    # numpy
    for si, shp in enumerate(SHAPES):
        size = 1
        for s in shp:
            size *= s
        for fill in range(1 << size):
            for di in range(len(DTYPES)):
                for lay in LAYOUTS:
                    if lay in ("F", "T") and len(shp) < 2:
                        continue
                    if lay in ("step2", "rev") and len(shp) != 1:
                        continue
                    if lay == "bcast" and not (len(shp) == 2 and shp[0] == 2):
                        continue
                    if lay == "memmap" and not (DTYPES[di] in ("i8", "f8") and shp in ((2,), (2, 2))):
                        continue
                    out.append(("nd", si, fill, di, lay))
    # structured / record dtypes: same bytes, different field names or field types
    for sd in range(len(STRUCT_DTYPES)):
        for fill in range(4):
            for shp in ((), (2,)):
                out.append(("struct", sd, fill, shp))
    # object arrays
    for L in (0, 1, 2):
        for t in itertools.product(range(len(OSTR)), repeat=L):
            out.append(("obj", t))
    for t in itertools.product(range(6), repeat=3):
        out.append(("obj", t))
    out.append(("obj2d", 0))
    out.append(("obj2d", 1))
    # pandas
    for cells in itertools.product((0, 1), repeat=2):
        for dt in ("i8", "f8", "str", "cat", "bool"):
            for ix in ("range", "01", "10", "ab"):
                for name in (None, "x"):
                    out.append(("series", cells, dt, ix, name))
        for name in (None, "x"):
            out.append(("index", cells, "i8", name))
            out.append(("index", cells, "str", name))
        out.append(("multiindex", cells, 0))
        out.append(("multiindex", cells, 1))
        for cats in (("0", "1"), ("1", "0"), ("0", "1", "2")):
            for ordered in (False, True):
                out.append(("categorical", cells, cats, ordered))
    for cells in itertools.product((0, 1), repeat=3):
        for order in itertools.permutations(range(3)):
            for dts in (("i8", "f8", "i8"), ("i8", "i8", "i8"), ("i8", "str", "i8"), ("f8", "i8", "f8")):
                out.append(("frame", cells, order, dts))
    for cols in (("a", "b"), ("b", "a")):
        for ix in ("range", "10"):
            out.append(("frame2", cols, ix))
    # dataclasses, partials, lambdas
    for cls in ("DA", "DB"):
        for x in (0, 1, "a"):
            for y in (0, 1):
                out.append(("dc", cls, x, y))
    for fn in ("f", "g"):
        for args in ((), (1,), (2,), (1, 2)):
            for kw in ((), (("y", 1),), (("y", 2),)):
                out.append(("partial", fn, args, kw))
    for name in LAMBDAS:
        out.append(("lambda", name))
    for c in (1, 2):
        out.append(("closure", c))
    out.append(("func", "f"))
    out.append(("func", "g"))
    return out


_TMP = None


def build(d):
    import numpy as np
    import pandas as pd

    k = d[0]
    if k == "scalar":
        return SCALARS[d[1]]
    if k in ("list", "tuple"):
        v = [S9[i] for i in d[1]]
        return v if k == "list" else tuple(v)
    if k in ("set", "frozenset"):
        v = {S9[i] for i in d[1]}
        return v if k == "set" else frozenset(v)
    if k == "dict":
        return {S9[a]: S9[b] for a, b in d[1]}
    if k == "nest":
        reps = [("list", ()), ("list", (0,)), ("list", (0, 1)), ("list", (1, 0)), ("tuple", ()), ("tuple", (0,)), ("tuple", (0, 1)), ("set", (0, 1)),
                ("dict", ((2, 0),)), ("dict", ((2, 1),)), ("dict", ((2, 0), (0, 1))), ("frozenset", (0,)), ("list", (2,)), ("tuple", (2, 3))]
        pool = [("r", i) for i in range(len(reps))] + [("s", 0), ("s", 1), ("s", 2)]
        items = []
        for i in d[2]:
            p = pool[i]
            items.append(build(reps[p[1]]) if p[0] == "r" else S9[p[1]])
        if d[1] == "list":
            return items
        if d[1] == "tuple":
            return tuple(items)
        return {"k": items[0]}
    if k == "reclist":
        l = [d[1]]
        l.append(l)
        return l
    if k == "nd":
        _, si, fill, di, lay = d
        shp = SHAPES[si]
        size = int(np.prod(shp)) if shp else 1
        cells = np.array([(fill >> i) & 1 for i in range(size)], dtype="i8").reshape(shp)
        dt = np.dtype(DTYPES[di])
        if dt.kind in "SU":
            a = np.where(cells == 1, "b", "a").astype(dt)
        else:
            a = cells.astype(dt)
        if lay == "C":
            return np.ascontiguousarray(a)
        if lay == "F":
            return np.asfortranarray(a)
        if lay == "T":
            return np.ascontiguousarray(a.T).T
        if lay == "step2":
            buf = np.zeros(2 * a.shape[0], dtype=dt)
            if dt.kind in "SU":
                buf[:] = "z"
            buf[::2] = a
            return buf[::2]
        if lay == "rev":
            return np.ascontiguousarray(a[::-1])[::-1]
        if lay == "bcast":
            if not (a[0] == a[1]).all():
                return np.ascontiguousarray(a)
            return np.broadcast_to(a[0], a.shape)
        if lay == "memmap":
            global _TMP
            if _TMP is None or not os.path.isdir(_TMP):  # the runner removes each shard's private temp dir
                import tempfile

                _TMP = tempfile.mkdtemp(prefix="mc-c12-")
            path = os.path.join(_TMP, f"m-{si}-{fill}-{di}-{os.getpid()}.dat")
            m = np.memmap(path, dtype=dt, mode="w+", shape=a.shape)
            m[...] = a
            m.flush()
            return m
    if k == "struct":
        _, sd, fill, shp = d
        dt = np.dtype(STRUCT_DTYPES[sd])
        n = 1 if shp == () else shp[0]
        raw = np.zeros(n * dt.itemsize, dtype="u1")
        raw[:: 4] = [(fill >> (i % 2)) & 1 for i in range(len(raw[::4]))]
        a = raw.view(dt)
        return a[0] if shp == () else a.copy()
    if k == "obj":
        return np.array([OSTR[i] for i in d[1]], dtype=object)
    if k == "obj2d":
        a = np.empty((1, 2) if d[1] == 0 else (2, 1), dtype=object)
        a.flat[0], a.flat[1] = "a", "b"
        return a
    if k == "series":
        _, cells, dt, ix, name = d
        vals = _cells(cells, dt)
        index = {"range": None, "01": [0, 1], "10": [1, 0], "ab": ["a", "b"]}[ix]
        return pd.Series(vals, index=index, name=name)
    if k == "index":
        _, cells, dt, name = d
        return pd.Index(_cells(cells, dt), name=name)
    if k == "multiindex":
        _, cells, variant = d
        if variant == 0:
            return pd.MultiIndex.from_arrays([list(cells), ["a", "b"]], names=["l0", "l1"])
        return pd.MultiIndex.from_arrays([["a", "b"], list(cells)], names=["l0", "l1"])
    if k == "categorical":
        _, cells, cats, ordered = d
        return pd.Categorical([str(c) for c in cells], categories=list(cats), ordered=ordered)
    if k == "frame":
        _, cells, order, dts = d
        names = ["a", "b", "c"]
        cols = {}
        for pos in order:
            base = cells[pos]
            cols[names[pos]] = _cells((base, base + 2), dts[pos])
        return pd.DataFrame(cols)[names]
    if k == "frame2":
        _, cols, ix = d
        df = pd.DataFrame({cols[0]: [0, 1], cols[1]: [2, 3]})
        if ix == "10":
            df.index = [1, 0]
        return df
    if k == "dc":
        return {"DA": DA, "DB": DB}[d[1]](d[2], d[3])
    if k == "partial":
        return functools.partial(f_plain if d[1] == "f" else g_plain, *d[2], **dict(d[3]))
    if k == "lambda":
        return LAMBDAS[d[1]]
    if k == "closure":
        return _closure(d[1])
    if k == "func":
        return f_plain if d[1] == "f" else g_plain
    raise ValueError(d)


def _cells(cells, dt):
    import numpy as np
    import pandas as pd

    if dt == "str":
        return np.array([str(c) for c in cells], dtype=object)
    if dt == "cat":
        return pd.Categorical([str(c) for c in cells], categories=["0", "1", "2", "3"])
    if dt == "bool":
        return np.array([bool(c % 2) for c in cells])
    return np.array(cells, dtype=dt)


# ------------------------------------------------------------------ structural oracle
def canon(x, _seen=None):
    import numpy as np
    import pandas as pd

    _seen = _seen or {}
    if id(x) in _seen:
        return ("rec", _seen[id(x)])
    t = type(x)
    if x is None or t in (bool, int, str, bytes):
        return (t.__name__, x)
    if t is float:
        return ("float", "nan" if x != x else repr(x))
    if t is complex:
        return ("complex", repr(x))
    if t in (list, tuple):
        s2 = dict(_seen)
        s2[id(x)] = len(s2)
        return (t.__name__, tuple(canon(i, s2) for i in x))
    if t in (set, frozenset):
        return (t.__name__, frozenset(canon(i) for i in x))
    if t is dict:
        s2 = dict(_seen)
        s2[id(x)] = len(s2)
        return ("dict", frozenset((canon(k, s2), canon(v, s2)) for k, v in x.items()))
    if isinstance(x, np.void):
        return ("void", str(x.dtype.descr), canon(x.item()))
    if isinstance(x, np.ndarray):
        kind = "memmap" if isinstance(x, np.memmap) else "nd"
        a = np.asarray(x)
        if a.dtype.names:
            return ("nd-struct", str(a.dtype.descr), a.shape, tuple(canon(v) for v in a.ravel().tolist()))
        if a.dtype == object:
            cells = tuple(canon(v) for v in a.ravel().tolist())
        elif a.dtype.kind == "M":
            cells = tuple(a.astype("i8").ravel().tolist())
        else:
            cells = tuple(canon(v) for v in a.ravel().tolist())
        return ("nd", a.dtype.str, a.shape, cells)
    if isinstance(x, pd.MultiIndex):
        return ("MultiIndex", tuple(x.names), tuple(canon(v) for v in x.tolist()), tuple(str(l.dtype) for l in x.levels))
    if isinstance(x, pd.Index):
        return ("Index", type(x).__name__, str(x.dtype), x.name, tuple(canon(v) for v in x.tolist()))
    if isinstance(x, pd.Categorical):
        return ("Categorical", tuple(x.codes.tolist()), tuple(x.categories.tolist()), bool(x.ordered))
    if isinstance(x, pd.Series):
        vals = canon(x.values) if not isinstance(x.values, pd.Categorical) else canon(x.values)
        return ("Series", str(x.dtype), x.name, vals, canon(x.index))
    if isinstance(x, pd.DataFrame):
        return ("DataFrame", canon(x.index), tuple((c, canon(x[c].values), str(x[c].dtype)) for c in x.columns))
    if dataclasses.is_dataclass(x) and not isinstance(x, type):
        return ("dataclass", type(x).__qualname__, tuple((f.name, canon(getattr(x, f.name))) for f in dataclasses.fields(x)))
    if isinstance(x, functools.partial):
        return ("partial", canon(x.func), canon(tuple(x.args)), canon(dict(x.keywords)))
    if callable(x) and hasattr(x, "__code__"):
        c = x.__code__
        clos = tuple(canon(cell.cell_contents) for cell in (x.__closure__ or ()))
        return ("fn", x.__module__, x.__qualname__ if "<lambda>" not in x.__qualname__ else "<lambda>", c.co_code, canon(tuple(k for k in c.co_consts if not hasattr(k, "co_code"))), c.co_names, canon(x.__defaults__), clos)
    return ("other", repr(x))


def family(d):
    k = d[0]
    if k == "nd":
        return f"nd:{d[4]}"
    if k in ("list", "tuple", "set", "frozenset", "dict", "nest", "reclist", "scalar"):
        return "builtin"
    return k


PLAIN = ("struct", "scalar", "list", "tuple", "set", "frozenset", "dict", "nest", "nd", "obj", "series", "index", "multiindex", "categorical", "frame", "frame2")


def shards(tier):
    return [("pairs", i) for i in range(NPARTS)] + [("determinism", i) for i in range(NPARTS)] + [("xproc", 1), ("xproc", 2)]


def all_tokens(descs, ctx=None):
    from dask.tokenize import tokenize

    toks = {}
    for d in descs:
        try:
            v = build(d)
            toks[d] = tokenize(v)
        except Hang:
            raise
        except Exception as e:  # noqa: BLE001
            if ctx is not None:
                ctx.violation(f"tokenize-raises:{family(d)}:{type(e).__name__}", d, repr(e)[:300])
    return toks


def collision_class(d1, d2):
    f1, f2 = sorted([family(d1), family(d2)])
    if f1.startswith("nd:") and f2.startswith("nd:"):
        return f"{f1}~{f2}"
    return f"{f1}~{f2}"


def run_shard(shard, ctx):
    from dask.tokenize import tokenize

    kind, part = shard
    descs = descriptors()
    if kind == "pairs":
        toks = all_tokens(descs, ctx if part == 0 else None)
        groups = {}
        for d, t in toks.items():
            groups.setdefault(t, []).append(d)
        for gi, (t, ds) in enumerate(sorted(groups.items())):
            if gi % NPARTS != part:
                continue
            for d in ds:
                ctx.case(d, nontrivial=True, outcome=len(ds) > 1)
            if len(ds) == 1:
                continue
            cs = [canon(build(d)) for d in ds]
            for i in range(len(ds)):
                for j in range(i + 1, len(ds)):
                    ctx.count("same_token_pairs_checked")
                    if cs[i] != cs[j]:
                        ctx.violation(f"collision:{collision_class(ds[i], ds[j])}", (ds[i], ds[j]), f"same token {t} for {build(ds[i])!r} and {build(ds[j])!r}"[:500])
    elif kind == "determinism":
        for i, d in enumerate(descs):
            if i % NPARTS != part:
                continue
            check_determinism(d, ctx)
    elif kind == "xproc":
        plain = [d for d in descs if d[0] in PLAIN and not (d[0] == "nd" and d[4] == "memmap")]
        mine = {repr(d): t for d, t in all_tokens(plain).items()}
        env = dict(os.environ, PYTHONHASHSEED=str(part))
        p = subprocess.run([sys.executable, "-c", "import sys; sys.path.insert(0, %r); from mc.props import C12; C12.child()" % os.path.dirname(os.path.dirname(os.path.dirname(os.path.abspath(__file__))))],
                           capture_output=True, text=True, env=env, timeout=600)
        if p.returncode != 0:
            ctx.violation("xproc:child-failed", ("xproc", part), p.stderr[-500:])
            return
        theirs = json.loads(p.stdout)
        for d in plain:
            r = repr(d)
            ctx.case(("xproc", part, d), nontrivial=True)
            if r in mine and r in theirs and mine[r] != theirs[r]:
                ctx.violation(f"hash-seed-dependent:{family(d)}", ("xproc", part, d), f"token differs between PYTHONHASHSEED={os.environ.get('PYTHONHASHSEED')} and {part}")


def check_determinism(d, ctx):
    from dask.tokenize import tokenize

    v = build(d)
    ctx.case(("det", d), nontrivial=True)
    t1 = tokenize(v)
    if tokenize(v) != t1:
        ctx.violation(f"nondeterministic:{family(d)}:repeat", d, "two calls differ")
        return
    try:
        v2 = build(d)
        if d[0] not in ("lambda", "closure") and not (d[0] == "nd" and d[4] == "memmap") and tokenize(v2) != t1:
            ctx.violation(f"nondeterministic:{family(d)}:rebuilt", d, "an independently constructed equal value has another token")
            return
    except Hang:
        raise
    if d[0] not in ("reclist",):
        try:
            vc = copy.deepcopy(v)
        except Exception:  # noqa: BLE001
            vc = None
        if vc is not None and canon(vc) == canon(v) and tokenize(vc) != t1:
            ctx.violation(f"nondeterministic:{family(d)}:deepcopy", d, "deepcopy has another token")
            return
    try:
        vp = pickle.loads(pickle.dumps(v))
    except Exception:  # noqa: BLE001
        vp = None
    if vp is not None and not (d[0] == "nd" and d[4] == "memmap") and canon(vp) == canon(v) and tokenize(vp) != t1:
        ctx.violation(f"nondeterministic:{family(d)}:pickle-roundtrip", d, "pickle round trip has another token")


def child():
    descs = [d for d in descriptors() if d[0] in PLAIN and not (d[0] == "nd" and d[4] == "memmap")]
    print(json.dumps({repr(d): t for d, t in all_tokens(descs).items()}))


def replay(case, ctx):
    from dask.tokenize import tokenize

    if case and case[0] == "xproc":
        run_shard(("xproc", case[1]), ctx)
        return
    if len(case) == 2 and isinstance(case[0], tuple) and isinstance(case[1], tuple) and case[0] and isinstance(case[0][0], str) and isinstance(case[1][0], str):
        d1, d2 = case
        a, b = build(d1), build(d2)
        if tokenize(a) == tokenize(b) and canon(a) != canon(b):
            ctx.violation(f"collision:{collision_class(d1, d2)}", case, f"same token for {a!r} and {b!r}"[:400])
        return
    check_determinism(case, ctx)
