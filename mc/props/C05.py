"""C05 -- callback protocol (a: inside the exhaustive completion-order sweep) and context nesting
(b: BFS over histories of enter/exit/register/unregister/get on the real Callback machinery)."""
from __future__ import annotations

from mc import history
from mc.props import _sweep

ID = "C05"
LEVEL = "model_checking"
HANG_IS_VIOLATION = True
WATCHDOG_S = 20.0
ENTRIES = ("async", "threaded", "mp_noopt", "mp", "sync")
NMAX = {"quick": 4, "thorough": 5}
DEPTH = {"quick": 6, "thorough": 8}
CONFIGS = [(1, 1), (2, 1), (3, 1), (3, 2), (3, -1)]
ASSUMPTIONS = [
    "G3 for part (a)",
    "part (b): contexts are exited innermost-first (the only order Python's with statement produces); unregister() is offered only "
    "while the callback is in no open context (the statement does not say which activation it cancels otherwise)",
    "dedup of histories on (model frames, registered set, Callback.active): every operation's effect depends only on these",
]


def RULE(tier):
    return (
        f"(a) all DAGs <= {NMAX[tier]} nodes x (no failure | every single failing task) x requests (full list, each single key) x entries "
        f"{ENTRIES} x configs {CONFIGS} x EVERY completion order, 2 recorder callbacks (3 for n<=3); "
        f"(b) all histories up to depth {DEPTH[tier]} over ops enter add_callbacks(A)/(B)/(A,B), enter `with A`/`with B`, exit innermost, "
        "A/B.register(), A/B.unregister(), get(ok), get(failing) on the real dask.callbacks + dask.get; reference = stack of frames + "
        "registered set. non-trivial: (a) >= 2 batches pending at once, (b) history length >= 2."
    )


def shards(tier):
    out = [("hist", p) for p in HIST_PREFIXES]
    out += [("sweep",) + s for s in _sweep.shards_for(tier, ENTRIES, NMAX[tier])]
    return out


# ------------------------------------------------------------------ part (a)
def sweep_cases(shard, tier):
    entry, n, lo, hi = shard
    for mask, kinds, style, rev in _sweep.graph_space(tier, n):
        if not (lo <= mask < hi) or style != "int" or rev:
            continue
        if entry == "mp" and "m" in kinds:
            continue  # dict arguments + legacy fuse: judged under C09 (known finding fuse:*:dict-arg)
        fails = [()] + [f for f in _sweep.failsets(n, mask, kinds, 1, "V")]
        reqs = [list(range(n))] + list(range(n))
        for fail in fails:
            for req in reqs:
                configs = [(1, 1)] if entry == "sync" else CONFIGS
                for nw, cs in configs:
                    yield (entry, n, mask, kinds, "int", False, req, nw, cs, fail)


# ------------------------------------------------------------------ part (b)
class CBSystem:
    """real: dask.callbacks machinery.  model: stack of frames (sets of names) + registered set."""

    def __init__(self):
        from dask.callbacks import Callback

        self.Callback = Callback
        Callback.active = set()
        self.fired = {"A": [], "B": []}
        self.cb = {}
        for name in "AB":
            self.cb[name] = Callback(
                start=lambda dsk, name=name: self.fired[name].append("start"),
                pretask=lambda key, dsk, state, name=name: self.fired[name].append("pre"),
                posttask=lambda key, res, dsk, state, wid, name=name: self.fired[name].append("post"),
                finish=lambda dsk, state, failed, name=name: self.fired[name].append(("finish", failed)),
            )
        self.frames = []  # (names, exit_callable)
        self.registered = set()

    def model_active(self):
        a = set(self.registered)
        for names, _ in self.frames:
            a |= set(names)
        return a

    def enabled(self):
        ops = [("add", "A"), ("add", "B"), ("add", "AB"), ("with", "A"), ("with", "B")]
        if self.frames:
            ops.append(("exit",))
        for n in "AB":
            if n not in self.registered:
                ops.append(("register", n))
            elif not any(n in names for names, _ in self.frames):
                ops.append(("unregister", n))
        ops += [("get", "ok"), ("get", "fail")]
        return ops

    def step(self, op):
        from dask.callbacks import add_callbacks
        import dask

        viol = []
        kind = op[0]
        if kind == "add":
            cm = add_callbacks(*[self.cb[n] for n in op[1]])
            cm.__enter__()
            self.frames.append((op[1], lambda cm=cm: cm.__exit__(None, None, None)))
        elif kind == "with":
            c = self.cb[op[1]]
            c.__enter__()
            self.frames.append((op[1], lambda c=c: c.__exit__(None, None, None)))
        elif kind == "exit":
            names, ex = self.frames.pop()
            ex()
        elif kind == "register":
            self.cb[op[1]].register()
            self.registered.add(op[1])
        elif kind == "unregister":
            self.cb[op[1]].unregister()
            self.registered.discard(op[1])
        elif kind == "get":
            for n in "AB":
                del self.fired[n][:]
            before = set(self.Callback.active)

            def boom():
                raise ValueError("boom")

            dsk = {"x": (int, 1), "y": ((lambda v: v + 1) if op[1] == "ok" else (lambda v: boom()), "x")}
            try:
                r = dask.get(dsk, "y")
                ok = r == 2
            except ValueError:
                ok = op[1] == "fail"
            if not ok:
                viol.append(("C05b:get-result", f"unexpected get outcome for {op}"))
            want = self.model_active()
            failed = op[1] == "fail"
            for n in "AB":
                f = self.fired[n]
                if n in want:
                    exp = ["start", "pre", "post", "pre"] + ([] if failed else ["post"]) + [("finish", failed)]
                    if f != exp:
                        viol.append((f"C05b:active-callback-not-fired", f"callback {n} should be active (frames={[x for x, _ in self.frames]}, registered={sorted(self.registered)}) but saw {f}"))
                elif f:
                    viol.append(("C05b:inactive-callback-fired", f"callback {n} is in no open context and not registered but fired {f}"))
            if set(self.Callback.active) != before:
                viol.append(("C05b:active-not-restored-after-get", f"Callback.active changed across get: {len(before)} -> {len(self.Callback.active)}"))
        return viol

    def canon(self):
        act = self.Callback.active
        return (
            tuple(names for names, _ in self.frames),
            tuple(sorted(self.registered)),
            tuple(sorted(n for n in "AB" if self.cb[n]._callback in act)),
            len(act),
        )


HIST_PREFIXES = [(op,) for op in [("add", "A"), ("add", "B"), ("add", "AB"), ("with", "A"), ("with", "B"), ("register", "A"), ("register", "B"), ("get", "ok"), ("get", "fail")]]


def run_shard(shard, ctx):
    if shard[0] == "hist":
        prefix = shard[1]
        # the first op itself is a transition to check
        s = CBSystem()
        v = s.step(prefix[0])
        ctx.transition()
        ctx.case(prefix, nontrivial=False)
        if v:
            ctx.violation(v[0][0], ("hist", prefix), v[0][1])
            return
        ctx.guard(("hist", prefix), history.bfs, CBSystem, DEPTH[ctx.tier], ctx, prefix, True, "hist", seconds=3000)
        return
    for case in sweep_cases(shard[1:], ctx.tier):
        if ctx.out_of_time():
            return
        ncb = 3 if case[1] <= 3 else 2
        ctx.guard(case, _sweep.run_case, ID, case, ctx, ncb)


def replay(case, ctx):
    if case[0] == "hist":
        s = CBSystem()
        for op in case[1]:
            for key, detail in s.step(op):
                ctx.violation(key, case, detail)
        s.Callback.active = set()
        return
    _sweep.run_case(ID, case, ctx, 3 if case[1] <= 3 else 2)


conformance = _sweep.conformance
