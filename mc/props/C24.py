"""C24 -- structural array operations equal NumPy (DESIGN 5/C24).  E4: exhaustive small scope.

Every case is a literal tuple whose first element names the operation family:
  ("reshape", shape, chunks, target, merge_chunks)      target: tuple (may contain -1) | int | "ravel" | "flatten"
  ("transpose", shape, chunks, style, axes)             style: "T" | "method" | "func"
  ("moveaxis", shape, chunks, src, dst) / ("swapaxes", shape, chunks, a, b) / ("rollaxis", shape, chunks, axis, start)
  ("squeeze", shape, chunks, axis) / ("expand_dims", shape, chunks, axis)
  ("concat", fn, axis, parts)                           parts: ((shape, kind, chunks), ...); kind 'd' dask | 'n' numpy
  ("block", layout, parts)                              layout: nested lists of part numbers
  ("broadcast_to", shape, chunks, target, chunks_arg)
  ("flip", fn, shape, chunks, axis) / ("rot90", shape, chunks, k, axes)
  ("take", shape, chunks, indices, axis, index kind) / ("shuffle", shape, chunks, indexer, axis)
  ("repeat", shape, chunks, repeats, axis) / ("tile", shape, chunks, reps)
  ("pad", shape, chunks, pad_width, mode, kwargs) / ("tri", fn, shape, chunks, k)
  ("diff", shape, chunks, n, axis, prepend, append) / ("roll", shape, chunks, shift, axis)
  ("rpair", shape, chunks, target)                      x.reshape(t) and da.reshape(x, t, merge_chunks=False) used together
  ("joint", family, tier, inputs, sub)                  ALL argument variants of the listed families on the SAME input(s), evaluated by
                                                        one dask.compute(*variants) and inside one expression (concatenated ravels)
The reference is the same NumPy call on the in-memory data (distinct integers, so every element is traceable).
"""
from __future__ import annotations

import itertools
import warnings

import numpy as np

from mc import arr, enums
from mc.run import Hang

ID = "C24"
LEVEL = "exploration"
WATCHDOG_S = 30.0
ASSUMPTIONS = [
    "sync scheduler; data are seed-permuted distinct int64 values so every element is traceable (pad 'mean' therefore exercises the integer rounding path)",
    "NotImplementedError (reshape that splits dimensions unevenly, repeat without axis, pad median / reflect_type='odd' ...) is a documented refusal: counted, never silent",
    "where NumPy itself raises the case is inapplicable; pad mode 'empty' leaves the border undefined, so only the interior is compared",
    "shuffle is compared with np.take(x, concatenated indexer, axis): the statement's reference for a positional reorder",
    "joint groups leave out the input classes of recorded findings (judged by the single-case families) and keep merge_chunks=True / False reshapes in separate groups (their combination is the recorded finding checked by the 'rpair' family)",
    "pad mode='mean' with >= 2 padded axes uses one fixed data permutation (seed-independent) so that the recorded corner-rounding finding is reported under every seed",
]


# --------------------------------------------------------------------------------------------- helpers
def all_chunkings(shape):
    return list(enums.chunkings(shape)) if len(shape) else [()]


def few_chunkings(shape, k=3):
    """<= k chunkings: finest, single chunk, one irregular"""
    allc = all_chunkings(shape)
    if len(allc) <= k:
        return allc
    out = []
    for c in (allc[0], allc[-1], allc[len(allc) // 2 - 1], allc[1]):
        if c not in out:
            out.append(c)
    return out[:k]


def factorizations(n, k):
    """all ordered k-tuples of positive ints with product n"""
    if k == 1:
        yield (n,)
        return
    for d in range(1, n + 1):
        if n % d == 0:
            for rest in factorizations(n // d, k - 1):
                yield (d,) + rest


def reshape_targets(shape, maxdim):
    n = int(np.prod(shape))
    out = []
    if n == 0:
        base = [(0,), (0, 1), (1, 0), (0, 2), (2, 0), (3, 0), (0, 3), (2, 0, 3), (0, 0)]
        out = [t for t in base]
        out += [(-1,), (0, -1), (-1, 0)]
        return out
    for k in range(1, maxdim + 1):
        for t in factorizations(n, k):
            out.append(t)
            for i in range(k):
                out.append(t[:i] + (-1,) + t[i + 1 :])
    seen, res = set(), []
    for t in out:
        if t not in seen:
            seen.add(t)
            res.append(t)
    return res


def lit(x):
    """nested lists/tuples -> nested tuples (literal, hashable)"""
    if isinstance(x, (list, tuple)):
        return tuple(lit(i) for i in x)
    return x


def unlit_list(x):
    if isinstance(x, tuple):
        return [unlit_list(i) for i in x]
    return x


# --------------------------------------------------------------------------------------------- enumeration
def RULE(tier):
    t = tier == "thorough"
    return (
        "EVERY chunking of every listed shape x: reshape to every ordered factorisation of the size into <= "
        f"{4 if t else 3} axes (each also with one axis given as -1; ravel/flatten/int) x merge_chunks; every axis permutation for transpose, every "
        "(source,destination) for moveaxis/swapaxes/rollaxis (negative axes too); squeeze/expand_dims over every axis and axis tuple; "
        "concatenate/stack/hstack/vstack/dstack of 2-3 dask/NumPy arrays over every axis (None and negative too) with every chunking of every part (stack of three / 2x2 block grids: every chunking of two parts x 3 of the others); "
        "block over 1- and 2-level layouts; broadcast_to every compatible target of <= 3 axes over sizes {0,1,2,3} with legal chunks= hints; flip/flipud/fliplr/"
        f"rot90 (k in -2..5, every axes pair); take per axis with every index vector of length <= 3 (n-d inputs: <= {3 if t else 2}) over [-n,n) as list/ndarray/dask "
        "array, every int, and a 2-d index array; shuffle with every grouping of every permutation and of every index sequence of length <= 3 (duplicates, "
        "subsets); repeat (0..3) / tile (ints and tuples over 0..3); pad: 11 modes (20 mode/keyword variants: constant_values, end_values, stat_length, "
        f"reflect_type) x 1-d every (before, after) width in 0..{3 if t else 2} on n<={6 if t else 4}, 2-d {81 if t else 36} asymmetric per-axis width combinations, "
        "3-d two widths; tril/triu for every k; "
        "diff (n 0..3, prepend/append scalar or array); roll by every shift in [-n-1,n+1] per axis, flattened and multi-axis. Shapes: 1-d n<="
        f"{7 if t else 5}, 2-d up to {'4x4' if t else '3x4'}{', 1-d (12,) for reshape' if t else ''}, 3-d (2,2,2),(1,2,3),(2,3,2), zero-length axes included. JOINT evaluation: for every input "
        "(every chunking in the thorough tier; finest / single-chunk / one irregular chunking per shape in the quick tier) ALL argument variants of "
        "concatenate+stack+hstack/vstack/dstack+block, of transpose+moveaxis+swapaxes+rollaxis+squeeze+expand_dims+flip+rot90+tril/triu+roll+repeat+tile+diff+"
        "broadcast_to, of take+shuffle, of reshape and of pad are built on the same dask input(s) and computed (1) by ONE dask.compute(*variants) and (2) as ONE "
        "expression (concatenation of the ravelled variants), each compared with NumPy; plus both spellings of every axis-reducing reshape (merge_chunks "
        "True/False) combined in one graph. Oracle: exact values, dtype, lazy shape/chunks vs computed blocks. non-trivial = some dask input has >= 2 chunks "
        "(joint: and >= 2 variants)."
    )


FAMILIES = ["reorder", "squeeze", "flip", "tri", "roll", "bcast", "repeat", "diff", "take", "shuffle", "reshape", "rpair", "concat", "block", "pad"]
NSPLIT = {"rpair": 6, "reshape": 12, "concat": 12, "pad": 16, "take": 6, "shuffle": 6, "diff": 4, "block": 4, "bcast": 2, "roll": 3, "repeat": 3, "tri": 2}


# JOINT families: ALL argument variants of one and the same input(s) are built side by side and evaluated in ONE dask.compute(...)
# call and once more inside ONE expression (concatenation of the ravelled variants): results that are right alone must stay
# right when their graphs are merged (layer / key names must depend on every argument).
JOINT = {
    "j-join": ("concat", "block"),
    "j-axis": ("reorder", "squeeze", "flip", "tri", "roll", "repeat", "diff", "bcast"),
    "j-take": ("take", "shuffle"),
    "j-reshape": ("reshape",),
    "j-pad": ("pad",),
}
JSPLIT = {"j-join": 4, "j-axis": 6, "j-take": 4, "j-reshape": 4, "j-pad": 6}


def shards(tier):
    out = []
    for fam in FAMILIES:
        k = NSPLIT.get(fam, 1) * (3 if tier == "thorough" else 1)
        for part in range(k):
            out.append((fam, part, k))
    for jf in JOINT:
        k = JSPLIT[jf] * (3 if tier == "thorough" else 1)
        for part in range(k):
            out.append((jf, part, k))
    return out


def shapes_1d(tier, lo=0):
    return [(n,) for n in range(lo, (7 if tier == "thorough" else 5) + 1)]


S2 = [(2, 3), (3, 2), (1, 3), (3, 1), (2, 2), (0, 2), (2, 0)]
S3 = [(2, 2, 2), (1, 2, 3), (2, 3, 2)]


def gen_reshape(tier):
    t = tier == "thorough"
    shapes = [(4,), (6,), (8,), (0,), (2, 3), (3, 2), (2, 2), (1, 4), (4, 1), (2, 4), (3, 4), (0, 2), (2, 0), (2, 2, 2), (1, 2, 3), (2, 3, 2), (2, 1, 3)]
    if t:
        shapes += [(9,), (10,), (12,), (4, 3), (4, 4), (2, 6), (3, 2, 2), (2, 2, 3), (2, 2, 2, 2)]
    for shp in shapes:
        targets = reshape_targets(shp, 4 if t else 3)
        for ch in all_chunkings(shp):
            for tg in targets:
                for merge in (True, False) if shp != (12,) else (True,):  # (12,): 2048 chunkings, merge_chunks=True only
                    yield ("reshape", shp, ch, tg, merge)
            n = int(np.prod(shp))
            yield ("reshape", shp, ch, n, True)
            yield ("reshape", shp, ch, "ravel", True)
            yield ("reshape", shp, ch, "flatten", True)
            yield ("reshape", shp, ch, "star", True)


def gen_reorder(tier):
    shapes = [(3,), (2, 3), (3, 2), (0, 2), (2, 2, 2), (1, 2, 3), (2, 3, 2)] + ([(2, 1, 2, 3)] if tier == "thorough" else [])
    for shp in shapes:
        nd = len(shp)
        for ch in all_chunkings(shp):
            yield ("transpose", shp, ch, "T", None)
            yield ("transpose", shp, ch, "method", None)
            yield ("transpose", shp, ch, "func", None)
            for perm in itertools.permutations(range(nd)):
                yield ("transpose", shp, ch, "func", perm)
                yield ("transpose", shp, ch, "method", tuple(p - nd for p in perm))
                yield ("transpose", shp, ch, "star", perm)
            for a in range(-nd, nd):
                for b in range(-nd, nd):
                    yield ("moveaxis", shp, ch, a, b)
                    yield ("swapaxes", shp, ch, a, b)
                for b in range(-nd, nd + 1):
                    yield ("rollaxis", shp, ch, a, b)
            if nd >= 2:
                for src in itertools.permutations(range(nd), 2):
                    for dst in itertools.permutations(range(nd), 2):
                        yield ("moveaxis", shp, ch, src, dst)


def gen_squeeze(tier):
    shapes = [(1,), (3,), (1, 3), (3, 1), (1, 1), (1, 3, 1), (1, 1, 3), (2, 1, 2), (1, 0), ()]
    for shp in shapes:
        nd = len(shp)
        for ch in all_chunkings(shp):
            yield ("squeeze", shp, ch, None)
            if nd == 0:
                # NumPy accepts axis 0 / -1 on a 0-d array only as a backward-compatibility quirk (any other library, dask
                # included, treats it as out of bounds): not part of the alphabet.  axis=() is.
                yield ("squeeze", shp, ch, ())
            for a in range(-nd - 1, nd + 1) if nd else ():
                yield ("squeeze", shp, ch, a)
                yield ("squeeze", shp, ch, (a,))
            for ab in itertools.combinations(range(-nd, nd), 2):
                yield ("squeeze", shp, ch, ab)
            for a in range(-nd - 2, nd + 2):
                yield ("expand_dims", shp, ch, a)
            for ab in itertools.permutations(range(-nd - 2, nd + 2), 2):
                yield ("expand_dims", shp, ch, ab)


def part_variants(shape, kinds, chunk_fn):
    for k in kinds:
        if k == "d":
            for ch in chunk_fn(shape):
                yield (shape, "d", ch)
        else:
            yield (shape, "n", None)


def gen_concat(tier):
    t = tier == "thorough"
    # 1-d
    lens = [0, 1, 2, 3]
    for a in lens:
        for b in lens:
            for A in part_variants((a,), "dn", all_chunkings):
                for B in part_variants((b,), "dn", all_chunkings):
                    if A[1] == "n" and B[1] == "n":
                        continue
                    for fn, axes in (("concatenate", (0, -1, None)), ("hstack", (0,)), ("vstack", (0,)), ("dstack", (0,))):
                        if fn != "concatenate" and a != b and fn in ("vstack", "dstack"):
                            continue
                        for ax in axes:
                            yield ("concat", fn, ax, (A, B))
                    if a == b:
                        for ax in (0, 1, -1, -2):
                            yield ("concat", "stack", ax, (A, B))
    for tri in [(2, 1, 3), (1, 0, 2), (3, 3, 3), (2, 2, 1)]:
        for A in part_variants((tri[0],), "d", all_chunkings):
            for B in part_variants((tri[1],), "dn", all_chunkings):
                for C in part_variants((tri[2],), "d", all_chunkings):
                    yield ("concat", "concatenate", 0, (A, B, C))
                    if len(set(tri)) == 1:
                        yield ("concat", "stack", 1, (A, B, C))
                        yield ("concat", "stack", 0, (A, B, C))
    # 2-d: parts differ only along the joined axis
    for base, axis in [((2, 3), 0), ((2, 3), 1), ((2, 2), 0), ((2, 2), 1), ((3, 2), 1)]:
        for la, lb in [(1, 2), (2, 1), (2, 2), (0, 2), (3, 1)] if t else [(1, 2), (2, 2), (0, 2)]:
            sa = tuple(la if i == axis else s for i, s in enumerate(base))
            sb = tuple(lb if i == axis else s for i, s in enumerate(base))
            for A in part_variants(sa, "dn", all_chunkings):
                for B in part_variants(sb, "dn", all_chunkings):
                    if A[1] == "n" and B[1] == "n":
                        continue
                    for ax in (axis, axis - 2):
                        yield ("concat", "concatenate", ax, (A, B))
                    yield ("concat", "concatenate", None, (A, B))
                    yield ("concat", ("vstack", "hstack")[axis], 0, (A, B))
                    if t:
                        for C in part_variants(sa, "d", few_chunkings):
                            yield ("concat", "concatenate", axis, (A, B, C))
    # stack / dstack of equal shapes, every axis
    for shp in [(2, 2), (2, 3), (1, 2), (0, 2)] + ([(3, 2), (2, 2, 2)] if t else []):
        nd = len(shp)
        for A in part_variants(shp, "dn", all_chunkings):
            for B in part_variants(shp, "dn", all_chunkings):
                if A[1] == "n" and B[1] == "n":
                    continue
                for ax in range(-nd - 1, nd + 1):
                    yield ("concat", "stack", ax, (A, B))
                yield ("concat", "dstack", 0, (A, B))
        for A in part_variants(shp, "d", few_chunkings):
            for B in part_variants(shp, "d", few_chunkings):
                for C in part_variants(shp, "dn", all_chunkings):
                    for ax in (0, nd, -2):
                        yield ("concat", "stack", ax, (A, B, C))


def gen_block(tier):
    t = tier == "thorough"
    # flat list of 1-d arrays; list of lists (grid) of 2-d arrays; column of rows; nested depth mix
    for a, b in [(1, 2), (2, 2), (3, 1), (0, 2)]:
        for A in part_variants((a,), "dn", all_chunkings):
            for B in part_variants((b,), "dn", all_chunkings):
                if A[1] == "n" and B[1] == "n":
                    continue
                yield ("block", (0, 1), (A, B))
                yield ("block", ((0, 1),), (A, B))
                if a == b:
                    yield ("block", ((0,), (1,)), (A, B))
    # 2x2 grid: [[A, B], [C, D]] with A (r1,c1), B (r1,c2), C (r2,c1), D (r2,c2)
    for r1, r2, c1, c2 in [(1, 2, 2, 1), (2, 1, 1, 2), (2, 2, 2, 2)] if t else [(1, 2, 2, 1), (2, 2, 2, 2)]:
        shapes = [(r1, c1), (r1, c2), (r2, c1), (r2, c2)]
        for A in part_variants(shapes[0], "d", all_chunkings):
            for B in part_variants(shapes[1], "dn", few_chunkings if not t else all_chunkings):
                for C in part_variants(shapes[2], "d", few_chunkings):
                    for D in part_variants(shapes[3], "d", all_chunkings):
                        yield ("block", ((0, 1), (2, 3)), (A, B, C, D))
    # a row and a column of 2-d arrays, and a bare array
    for shp in [(2, 2), (2, 3)]:
        for A in part_variants(shp, "d", all_chunkings):
            yield ("block", 0, (A,))
            yield ("block", (0,), (A,))
            yield ("block", ((0,),), (A,))
            for B in part_variants(shp, "dn", all_chunkings):
                yield ("block", ((0, 1),), (A, B))
                yield ("block", ((0,), (1,)), (A, B))
                yield ("block", (((0,), (1,)),), (A, B))
                yield ("block", (((0, 1),), ((1, 0),)), (A, B))


def gen_bcast(tier):
    sources = [(), (1,), (3,), (1, 3), (2, 1), (2, 3), (0,), (1, 0), (1, 1)]
    sizes = (0, 1, 2, 3)
    targets = [()] + [tuple(s) for k in (1, 2, 3) for s in itertools.product(sizes, repeat=k)]
    for src in sources:
        for tg in targets:
            try:
                if np.broadcast_shapes(src, tg) != tg:
                    continue
            except ValueError:
                continue
            for ch in all_chunkings(src):
                yield ("broadcast_to", src, ch, tg, None)
                if len(tg) and all(tg):
                    # chunks= may only choose the chunking of NEW axes and of axes that had size 1 (documented ValueError otherwise);
                    # the other axes keep the source chunking
                    lead = len(tg) - len(src)
                    free = [i < lead or src[i - lead] == 1 for i in range(len(tg))]
                    for style in ("ones", "single", "two"):
                        hint = tuple(
                            ((1,) * n if style == "ones" else ((n,) if style == "single" else ((2,) * (n // 2) + ((n % 2,) if n % 2 else ())))) if f else ch[i - lead]
                            for i, (n, f) in enumerate(zip(tg, free))
                        )
                        yield ("broadcast_to", src, ch, tg, hint)
    # incompatible targets must not silently succeed (NumPy raises ValueError)
    for src, tg in [((3,), (2,)), ((2, 3), (3,)), ((2, 3), (2, 2)), ((2, 1), (3, 3)), ((3,), (3, 2))]:
        for ch in all_chunkings(src):
            yield ("broadcast_to", src, ch, tg, None)


def gen_flip(tier):
    shapes = shapes_1d(tier)[:5] + [(2, 3), (3, 2), (0, 2), (1, 3)] + S3
    for shp in shapes:
        nd = len(shp)
        for ch in all_chunkings(shp):
            yield ("flip", "flip", shp, ch, None)
            for a in range(-nd - 1, nd + 1):
                yield ("flip", "flip", shp, ch, a)
            for k in (2, 3):
                for ab in itertools.combinations(range(-nd, nd), k):
                    yield ("flip", "flip", shp, ch, ab)
            yield ("flip", "flipud", shp, ch, None)
            yield ("flip", "fliplr", shp, ch, None)
            if nd >= 2:
                for k in range(-2, 6):
                    for axes in itertools.permutations(range(-nd, nd), 2):
                        yield ("rot90", shp, ch, k, axes)
            else:
                yield ("rot90", shp, ch, 1, (0, 1))


def gen_tri(tier):
    shapes = [(2, 3), (3, 2), (3, 3), (1, 3), (3, 1), (2, 2), (0, 2), (2, 2, 3), (3,), (3, 4)] + ([(4, 4)] if tier == "thorough" else [])
    for shp in shapes:
        r, c = (shp[-2], shp[-1]) if len(shp) >= 2 else (1, shp[0])
        for ch in all_chunkings(shp):
            for k in range(-r - 1, c + 2):
                yield ("tri", "tril", shp, ch, k)
                yield ("tri", "triu", shp, ch, k)


def gen_roll(tier):
    for shp in shapes_1d(tier) + [(2, 3), (3, 2), (0, 2), (2, 2, 2)]:
        nd = len(shp)
        nmax = max(shp) if shp else 0
        for ch in all_chunkings(shp):
            for s in range(-nmax - 1, nmax + 2):
                yield ("roll", shp, ch, s, None)
                for a in range(-nd, nd):
                    yield ("roll", shp, ch, s, a)
            if nd >= 2:
                for s0 in (-1, 0, 1, 2):
                    for s1 in (-2, 1, 3):
                        yield ("roll", shp, ch, (s0, s1), (0, 1))
                        yield ("roll", shp, ch, (s0, s1), (1, 1))
                    yield ("roll", shp, ch, s0, (0, 1))


def gen_repeat(tier):
    for shp in shapes_1d(tier) + [(2, 3), (3, 2), (0, 2), (2, 2, 2)]:
        nd = len(shp)
        for ch in all_chunkings(shp):
            for rep in range(0, 4):
                yield ("repeat", shp, ch, rep, None)
                for a in range(-nd, nd):
                    yield ("repeat", shp, ch, rep, a)
            reps = list(range(0, 4)) + [(r,) for r in (0, 2)] + list(itertools.product((0, 1, 2, 3), repeat=2)) + [(2, 1, 2), (1, 2, 1), (2, 2, 2)]
            for r in reps:
                yield ("tile", shp, ch, r)


def gen_diff(tier):
    for shp in shapes_1d(tier) + [(2, 3), (3, 2), (3, 3), (0, 2), (2, 2, 2)]:
        nd = len(shp)
        for ch in all_chunkings(shp):
            for n in range(0, 4):
                for a in sorted({-1, 0, nd - 1, -nd}):
                    yield ("diff", shp, ch, n, a, None, None)
                    if n in (1, 2):
                        for pre, app in ((7, None), (None, 7), (7, 9), ("arr1", None), (None, "arr2"), ("arr2", "arr1"), ("darr2", None)):
                            yield ("diff", shp, ch, n, a, pre, app)


def gen_take(tier):
    t = tier == "thorough"
    for shp in [(3,), (4,), (2, 3), (3, 2), (2, 2, 2)] + ([(5,), (3, 3)] if t else []):
        nd = len(shp)
        for ch in all_chunkings(shp):
            for a in range(-nd, nd):
                n = shp[a]
                for v in enums.index_vectors(n, 3 if (nd == 1 or t) else 2):
                    yield ("take", shp, ch, tuple(v), a, "list")
                    if len(v) and (nd == 1 or a >= 0):
                        yield ("take", shp, ch, tuple(v), a, "nd")
                    if len(v) == 2:
                        yield ("take", shp, ch, tuple(v), a, "da")
                for i in range(-n, n):
                    yield ("take", shp, ch, i, a, "int")
                yield ("take", shp, ch, ((0, n - 1), (n - 1, 0)), a, "nd2")  # 2-d index array


def groupings(seq):
    """every way to cut a sequence into consecutive non-empty groups"""
    n = len(seq)
    for comp in enums.compositions(n):
        out, i = [], 0
        for c in comp:
            out.append(tuple(seq[i : i + c]))
            i += c
        yield tuple(out)


def gen_shuffle(tier):
    t = tier == "thorough"
    for shp, axes in [((3,), (0,)), ((4,), (0,)), ((2, 3), (0, 1)), ((3, 2), (0, 1)), ((2, 2, 2), (1,))] + ([((5,), (0,)), ((3, 4), (1,))] if t else []):
        for a in axes:
            n = shp[a]
            seqs = list(itertools.permutations(range(n)))
            if n > 4:
                seqs = seqs[:: len(seqs) // 24]
            nperm = len(seqs)
            for L in range(1, min(n, 3) + 1):
                for s in itertools.product(range(n), repeat=L):
                    if len(set(s)) < L or L < n:
                        seqs.append(s)  # duplicates and proper subsets
            for ch in all_chunkings(shp):
                for si, s in enumerate(seqs):
                    for g in groupings(s):
                        yield ("shuffle", shp, ch, g, a)
                    if si < nperm:  # negative axis: whole permutations as one group / one group per element
                        yield ("shuffle", shp, ch, (tuple(s),), a - len(shp))
                        yield ("shuffle", shp, ch, tuple((i,) for i in s), a - len(shp))


PAD_MODES = [
    ("constant", ()),
    ("constant", (("constant_values", 7),)),
    ("constant", (("constant_values", (7, 9)),)),
    ("edge", ()),
    ("linear_ramp", ()),
    ("linear_ramp", (("end_values", (5, -4)),)),
    ("maximum", ()),
    ("minimum", ()),
    ("mean", ()),
    ("median", ()),
    ("maximum", (("stat_length", 2),)),
    ("mean", (("stat_length", (1, 2)),)),
    ("minimum", (("stat_length", 1),)),
    ("reflect", ()),
    ("symmetric", ()),
    ("wrap", ()),
    ("reflect", (("reflect_type", "odd"),)),
    ("symmetric", (("reflect_type", "odd"),)),
    ("reflect", (("reflect_type", "even"),)),
    ("empty", ()),
]


def gen_pad(tier):
    t = tier == "thorough"
    wmax = 3 if t else 2
    w1 = [(a, b) for a in range(wmax + 1) for b in range(wmax + 1)]
    for shp in [(n,) for n in range(1, (6 if t else 4) + 1)] + [(0,)]:
        for ch in all_chunkings(shp):
            for mode, kw in PAD_MODES:
                for w in w1:
                    yield ("pad", shp, ch, (w,), mode, kw)
                for w in range(1, wmax + 1):
                    yield ("pad", shp, ch, w, mode, kw)
    # 2-d / 3-d: per-axis asymmetric widths
    w2 = [((a, b), (c, d)) for a in (0, 1, 2) for b in (0, 2) for c in (0, 1) for d in (0, 1, 2)] if not t else [
        ((a, b), (c, d)) for a in (0, 1, 2) for b in (0, 1, 2) for c in (0, 1, 2) for d in (0, 1, 2)
    ]
    for shp in [(2, 3), (3, 2)] + ([(3, 3), (1, 3), (3, 4)] if t else []):
        for ch in all_chunkings(shp):
            for mode, kw in PAD_MODES:
                if kw and kw[0][0] == "reflect_type" and not t:
                    continue  # reflect_type variants: 1-d and 3-d shapes only in the quick tier
                for w in w2:
                    if w == ((0, 0), (0, 0)) and mode != "constant":
                        continue
                    yield ("pad", shp, ch, w, mode, kw)
                yield ("pad", shp, ch, 1, mode, kw)
                yield ("pad", shp, ch, (1, 2), mode, kw)
                yield ("pad", shp, ch, ((2, 1),), mode, kw)
    for ch in all_chunkings((2, 2, 2)):
        for mode, kw in PAD_MODES:
            yield ("pad", (2, 2, 2), ch, 1, mode, kw)
            yield ("pad", (2, 2, 2), ch, ((1, 0), (0, 2), (1, 1)), mode, kw)


def gen_rpair(tier):
    """the two spellings of one reshape -- x.reshape(t) and da.reshape(x, t, merge_chunks=False) -- used together"""
    seen = set()
    for case in gen_reshape(tier):
        # only targets with FEWER axes than the input: there merge_chunks=False rechunks first, otherwise both spellings are one code path
        if isinstance(case[3], tuple) and len(case[3]) < len(case[1]) and (case[1], case[2], case[3]) not in seen and case[1] != (12,):
            seen.add((case[1], case[2], case[3]))
            yield ("rpair", case[1], case[2], case[3])


GEN = {
    "rpair": gen_rpair,
    "reshape": gen_reshape,
    "reorder": gen_reorder,
    "squeeze": gen_squeeze,
    "concat": gen_concat,
    "block": gen_block,
    "bcast": gen_bcast,
    "flip": gen_flip,
    "tri": gen_tri,
    "roll": gen_roll,
    "repeat": gen_repeat,
    "diff": gen_diff,
    "take": gen_take,
    "shuffle": gen_shuffle,
    "pad": gen_pad,
}


def base_of(case):
    """the inputs of a case (everything that is NOT an argument of the operation): ('u', shape, chunks) | ('p', parts)"""
    op = case[0]
    if op == "concat":
        return ("p", case[3])
    if op == "block":
        return ("p", case[2])
    if op in ("flip", "tri"):
        return ("u", case[2], case[3])
    return ("u", case[1], case[2])


def joint_base_ok(base, tier):
    """quick tier: joint groups for <= 3 chunkings per shape (finest, single chunk, one irregular); thorough: every chunking"""
    if tier == "thorough":
        return True
    if base[0] == "u":
        return tuple(base[2]) in [tuple(c) for c in few_chunkings(tuple(base[1]))]
    return all(p[1] == "n" or tuple(p[2]) in [tuple(c) for c in few_chunkings(tuple(p[0]))] for p in base[1])


def joint_groups(jfam, tier, only=None):
    """(base, sub) -> list of variant cases (recorded-defect input classes are left to the single-case families).
    sub: reshape variants with merge_chunks=True and with merge_chunks=False form two separate groups -- mixing the two
    spellings of the SAME reshape in one graph is the recorded defect 'merge-chunks-name-collision', which has its own
    family ('rpair') so that it cannot mask any other collision here."""
    groups = {}
    for fam in JOINT[jfam]:
        for case in GEN[fam](tier):
            b = base_of(case)
            key = (b, case[4] if case[0] == "reshape" else None)
            if only is not None and key != only:
                continue
            if only is None and not joint_base_ok(b, tier):
                continue
            if known_class(case) is not None:
                continue
            groups.setdefault(key, []).append(case)
    return groups


def cases_of(shard, tier):
    fam, part, k = shard
    if fam in JOINT:
        for i, (b, sub) in enumerate(joint_groups(fam, tier)):
            if i % k == part:
                yield ("joint", fam, tier, b, sub)
        return
    for i, case in enumerate(GEN[fam](tier)):
        if i % k == part:
            yield case


# --------------------------------------------------------------------------------------------- evaluation
# deliberate, explicitly worded input refusals (G4: counted as rejected, never silent): (family, message fragment)
REFUSALS = [
    ("roll", "Must have the same number of shifts as axes"),  # scalar shift with a tuple of axes is refused by an explicit check
    ("broadcast_to", "new chunks must either be along a new dimension"),  # illegal chunks= hint
]


def pad_widths(shape, w):
    return np.full((len(shape), 2), w) if isinstance(w, int) else np.broadcast_to(np.asarray(w), (len(shape), 2))


def n_blocks(ch):
    return int(np.prod([len(c) for c in ch])) if ch else 1


def known_class(case):
    """narrow input classes of recorded findings (C24.findings.json); appended to the finding key"""
    op = case[0]
    if op == "reshape":
        if int(np.prod(case[1])) == 0 and n_blocks(case[2]) > 1:
            return "zero-size-multichunk"
    elif op == "concat":
        if case[1] == "concatenate" and case[2] is None and any(p[1] == "d" and int(np.prod(p[0])) == 0 and n_blocks(p[2]) > 1 for p in case[3]):
            return "zero-size-multichunk"
    elif op == "rpair":
        shape, ch, tg = case[1], case[2], case[3]
        lead = len(shape) - len(tg)
        if lead > 0 and any(max(c) > 1 for c in ch[:lead]):
            return "merge-chunks-name-collision"  # merge_chunks=False first rechunks the leading axes to 1, yet both results get one name
        if int(np.prod(shape)) == 0 and n_blocks(ch) > 1:
            return "zero-size-multichunk"
    elif op == "transpose":
        if case[3] == "method" and case[4] is None:
            return "positional-None"
    elif op == "repeat":
        if case[3] >= 2 and case[1][case[4] if case[4] is not None else 0] == 0:
            return "empty-axis"
    elif op == "take":
        if case[5] == "nd2":
            return "index-2d"
    elif op == "tri":
        if len(case[2]) == 1:
            return "1d-input"
    elif op == "shuffle":
        if case[4] < 0:
            return "negative-axis"
    elif op == "pad":
        shape, w, mode, kw = case[1], case[3], case[4], dict(case[5])
        wn = pad_widths(shape, w)
        if mode in ("reflect", "symmetric", "wrap"):
            lim = [s - 1 if mode == "reflect" else s for s in shape]
            if any(max(l, r) > m for (l, r), m in zip(wn, lim)):
                return "width-exceeds-axis"
            if kw.get("reflect_type") == "odd":
                return "reflect-odd"
        if mode == "mean" and int((wn.max(axis=1) > 0).sum()) >= 2:
            return "mean-int-corner-rounding"
        if 0 in shape:
            if mode == "constant":
                return "empty-axis-constant"
            if mode in ("maximum", "minimum", "mean"):
                return "empty-axis-stat"
    return None


def mk(shape, chunks, seed, salt=0):
    import dask.array as da

    x = arr.data(tuple(shape), seed + 11 * salt, lo=1 + 100 * salt)
    return da.from_array(x, chunks=tuple(chunks)), x


def mk_part(p, seed, salt):
    shape, kind, chunks = p
    if kind == "n":
        x = arr.data(tuple(shape), seed + 11 * salt, lo=1 + 100 * salt)
        return x, x
    return mk(shape, chunks, seed, salt)


def nest(layout, objs):
    if isinstance(layout, tuple):
        return [nest(l, objs) for l in layout]
    return objs[layout]


def build(case, seed):
    """-> (f_da, f_np, list of chunkings of the dask inputs, postprocess | None)"""
    import dask.array as da

    op = case[0]
    if op in ("concat", "block"):
        parts = case[3] if op == "concat" else case[2]
        made = [mk_part(p, seed, i) for i, p in enumerate(parts)]
        ds = [m[0] for m in made]
        xs = [m[1] for m in made]
        chs = [p[2] for p in parts if p[1] == "d"]
        if op == "block":
            layout = case[1]
            return (lambda: da.block(nest(layout, ds))), (lambda: np.block(nest(layout, xs))), chs, None
        fn, axis = case[1], case[2]
        if fn in ("concatenate", "stack"):
            return (lambda: getattr(da, fn)(ds, axis=axis)), (lambda: getattr(np, fn)(xs, axis=axis)), chs, None
        return (lambda: getattr(da, fn)(ds)), (lambda: getattr(np, fn)(xs)), chs, None
    if op in ("flip", "tri"):
        shape, chunks = case[2], case[3]
    else:
        shape, chunks = case[1], case[2]
    if op == "pad" and case[4] == "mean" and known_class(case) == "mean-int-corner-rounding":
        # whether NumPy's axis-by-axis double rounding of integer corner means differs from dask's joint mean depends on the
        # data; a FIXED permutation (that exhibits it) keeps the recorded finding key identical under every VERIF_SEED
        seed = 2
    d, x = mk(shape, chunks, seed)
    chs = [chunks]
    post = None
    if op == "reshape":
        tg, merge = case[3], case[4]
        if tg == "ravel":
            return (lambda: da.ravel(d)), (lambda: np.ravel(x)), chs, None
        if tg == "flatten":
            return (lambda: d.flatten()), (lambda: x.flatten()), chs, None
        if tg == "star":
            n = int(np.prod(shape))
            return (lambda: d.reshape(1, n)), (lambda: x.reshape(1, n)), chs, None
        if merge:
            return (lambda: d.reshape(tg)), (lambda: x.reshape(tg)), chs, None
        return (lambda: da.reshape(d, tg, merge_chunks=False)), (lambda: np.reshape(x, tg)), chs, None
    if op == "transpose":
        style, axes = case[3], case[4]
        if style == "T":
            return (lambda: d.T), (lambda: x.T), chs, None
        if style == "method":
            return (lambda: d.transpose(axes)), (lambda: x.transpose(axes)), chs, None
        if style == "star":
            return (lambda: d.transpose(*axes)), (lambda: x.transpose(*axes)), chs, None
        return (lambda: da.transpose(d, axes)), (lambda: np.transpose(x, axes)), chs, None
    if op == "moveaxis":
        return (lambda: da.moveaxis(d, case[3], case[4])), (lambda: np.moveaxis(x, case[3], case[4])), chs, None
    if op == "swapaxes":
        return (lambda: da.swapaxes(d, case[3], case[4])), (lambda: np.swapaxes(x, case[3], case[4])), chs, None
    if op == "rollaxis":
        return (lambda: da.rollaxis(d, case[3], case[4])), (lambda: np.rollaxis(x, case[3], case[4])), chs, None
    if op == "squeeze":
        return (lambda: da.squeeze(d, axis=case[3])), (lambda: np.squeeze(x, axis=case[3])), chs, None
    if op == "expand_dims":
        return (lambda: da.expand_dims(d, axis=case[3])), (lambda: np.expand_dims(x, axis=case[3])), chs, None
    if op == "broadcast_to":
        tg, carg = case[3], case[4]
        if carg is None:
            return (lambda: da.broadcast_to(d, tg)), (lambda: np.broadcast_to(x, tg)), chs, None
        return (lambda: da.broadcast_to(d, tg, chunks=carg)), (lambda: np.broadcast_to(x, tg)), chs, None
    if op == "flip":
        fn, axis = case[1], case[4]
        if fn == "flip":
            return (lambda: da.flip(d, axis)), (lambda: np.flip(x, axis)), chs, None
        return (lambda: getattr(da, fn)(d)), (lambda: getattr(np, fn)(x)), chs, None
    if op == "rot90":
        return (lambda: da.rot90(d, case[3], case[4])), (lambda: np.rot90(x, case[3], case[4])), chs, None
    if op == "tri":
        fn, k = case[1], case[4]
        return (lambda: getattr(da, fn)(d, k)), (lambda: getattr(np, fn)(x, k)), chs, None
    if op == "roll":
        return (lambda: da.roll(d, case[3], case[4])), (lambda: np.roll(x, case[3], case[4])), chs, None
    if op == "repeat":
        return (lambda: da.repeat(d, case[3], axis=case[4])), (lambda: np.repeat(x, case[3], axis=case[4])), chs, None
    if op == "tile":
        return (lambda: da.tile(d, case[3])), (lambda: np.tile(x, case[3])), chs, None
    if op == "diff":
        n, axis, pre, app = case[3:7]

        def val(v, dask_side):
            if v is None or isinstance(v, int):
                return v
            k = int(v[-1])
            s = list(shape)
            s[axis] = k
            a = arr.data(tuple(s), seed + 5, lo=50)
            if dask_side and v.startswith("d"):
                return da.from_array(a, chunks=1)
            return a

        kd = {k: val(v, True) for k, v in (("prepend", pre), ("append", app)) if v is not None}
        kn = {k: val(v, False) for k, v in (("prepend", pre), ("append", app)) if v is not None}
        return (lambda: da.diff(d, n, axis, **kd)), (lambda: np.diff(x, n, axis, **kn)), chs, None
    if op == "take":
        ind, axis, ik = case[3], case[4], case[5]
        if ik == "int":
            di = ni = ind
        elif ik == "list":
            di = ni = list(ind)
        elif ik in ("nd", "nd2"):
            di = ni = np.array(ind, dtype=np.intp)
        else:
            ni = np.array(ind, dtype=np.intp)
            di = da.from_array(ni, chunks=1)
        return (lambda: da.take(d, di, axis=axis)), (lambda: np.take(x, ni, axis=axis)), chs, None
    if op == "shuffle":
        groups, axis = case[3], case[4]
        flat = [i for g in groups for i in g]
        return (lambda: da.shuffle(d, [list(g) for g in groups], axis)), (lambda: np.take(x, flat, axis=axis)), chs, None
    if op == "pad":
        w, mode, kw = case[3], case[4], dict(case[5])
        if mode == "empty":

            def post(a):  # interior only
                wn = pad_widths(shape, w)
                sl = tuple(slice(int(l), a.shape[i] - int(r)) for i, (l, r) in enumerate(wn))
                return a[sl]

        return (lambda: da.pad(d, w, mode=mode, **kw)), (lambda: np.pad(x, w, mode=mode, **kw)), chs, post
    raise ValueError(op)


def run_joint(case, ctx, variants=None):
    import dask
    import dask.array as da

    _, jfam, tier, base, sub = case
    if variants is None:
        variants = joint_groups(jfam, tier, only=(base, sub)).get((base, sub), [])
    lazies, wants, posts, used = [], [], [], []
    nontrivial = False
    with warnings.catch_warnings():
        warnings.simplefilter("ignore")
        for v in variants:
            f_da, f_np, chs, post = build(v, ctx.seed)
            nontrivial = nontrivial or any(len(ax) >= 2 for ch in chs if ch for ax in ch)
            try:
                want = np.asanyarray(f_np())
                r = f_da()
            except Hang:
                raise
            except Exception:  # noqa: BLE001  (NumPy or dask refuses this variant: judged by the single-case family)
                continue
            if not hasattr(r, "__dask_graph__"):
                continue
            lazies.append(r)
            wants.append(want)
            posts.append(post)
            used.append(v)
        ctx.case(case, nontrivial=nontrivial and len(used) >= 2, outcome=(jfam, len(used)), n=max(len(used), 1))
        if len(used) < 2:
            ctx.count("joint_group_too_small")
            return
        # (1) one compute call over all variants
        try:
            gots = dask.compute(*lazies)
        except Hang:
            raise
        except Exception as e:  # noqa: BLE001
            ctx.violation(f"{jfam}:joint-compute-raises:{type(e).__name__}", case, f"dask.compute of {len(used)} variants raised {e!r}")
            return
        for v, r, got, want, post in zip(used, lazies, gots, wants, posts):
            got = np.asanyarray(got)
            if tuple(r.shape) != got.shape and not any(np.isnan(x) for x in r.shape):
                ctx.violation(f"{jfam}:joint-lazy-shape", case, f"variant {v!r}: lazy shape {r.shape}, computed {got.shape} (NumPy {want.shape})")
                return
            if post is not None and got.shape == want.shape:
                got, want = post(got), post(want)
            why = arr.equal(got, want)
            if why:
                ctx.violation(f"{jfam}:joint-wrong-value", case, f"variant {v!r} computed together with {len(used) - 1} other variants of the same input: {why}")
                return
        # (2) one expression using all variants: concatenation of the ravelled results
        sel = [i for i, (w, post) in enumerate(zip(wants, posts)) if w.size > 0 and post is None]
        if len(sel) >= 2:
            try:
                # flatten with the group's own reshape spelling (ravel() is x.reshape(-1) with merge_chunks=True and would
                # re-create the recorded 'merge-chunks-name-collision' inside the merge_chunks=False groups)
                flat = (lambda v: da.reshape(v, (-1,), merge_chunks=False)) if sub is False else (lambda v: v.ravel())
                expr = da.concatenate([flat(lazies[i]) for i in sel])
                got = np.asanyarray(expr.compute())
            except Hang:
                raise
            except Exception as e:  # noqa: BLE001
                ctx.violation(f"{jfam}:joint-expression-raises:{type(e).__name__}", case, f"concatenate of {len(sel)} ravelled variants raised {e!r}")
                return
            want = np.concatenate([wants[i].ravel() for i in sel])
            why = arr.equal(got, want)
            if why:
                bad = "?"
                if got.shape == want.shape:
                    off = int(np.flatnonzero(got != want)[0])
                    sizes = np.cumsum([wants[i].size for i in sel])
                    bad = repr(used[sel[int(np.searchsorted(sizes, off, side="right"))]])
                ctx.violation(f"{jfam}:joint-expression-wrong-value", case, f"first differing variant {bad}: {why}")


def run_rpair(case, ctx):
    import dask
    import dask.array as da

    _, shape, chunks, tg = case
    d, x = mk(shape, chunks, ctx.seed)
    sub = known_class(case)
    suffix = f":{sub}" if sub else ""
    nontrivial = any(len(ax) >= 2 for ax in chunks)
    try:
        want = x.reshape(tg)
    except Exception:  # noqa: BLE001
        ctx.case(case, nontrivial=nontrivial, outcome="numpy-raises")
        ctx.count("inapplicable")
        return
    try:
        a = d.reshape(tg)
        b = da.reshape(d, tg, merge_chunks=False)
    except Hang:
        raise
    except Exception as e:  # noqa: BLE001  (each spelling alone is judged by the 'reshape' family)
        ctx.case(case, nontrivial=nontrivial, outcome=type(e).__name__)
        ctx.count("rejected" if isinstance(e, NotImplementedError) else "single_spelling_raises")
        return
    ctx.case(case, nontrivial=nontrivial, outcome=(want.shape, a.chunks == b.chunks))
    uses = [
        ("compute", lambda: dask.compute(a, b), lambda: (want, want)),
        ("concatenate", lambda: (da.concatenate([a.ravel(), b.ravel()]).compute(),), lambda: (np.concatenate([want.ravel(), want.ravel()]),)),
        ("add", lambda: ((a + b).compute(),), lambda: (want + want,)),
    ]
    for label, f, w in uses:  # the first failing use is reported
        if label == "concatenate" and want.size == 0:
            continue
        try:
            gots = f()
        except Hang:
            raise
        except Exception as e:  # noqa: BLE001
            # which of the two same-named layers survives depends on the (data-dependent) key names, so for the recorded
            # collision class "raises" and "wrong value" are one finding key (stable across seeds)
            key = f"rpair:combined-failure{suffix}" if sub == "merge-chunks-name-collision" else f"rpair:combined-raises:{type(e).__name__}{suffix}"
            ctx.violation(key, case, f"{label} of x.reshape(t) and reshape(x, t, merge_chunks=False) raised {e!r}")
            return
        for got, wn in zip(gots, w()):
            why = arr.equal(np.asanyarray(got), wn)
            if why:
                ctx.violation(
                    f"rpair:combined-failure{suffix}" if sub == "merge-chunks-name-collision" else f"rpair:combined-wrong-value{suffix}",
                    case,
                    f"{label}: x.reshape(t) [chunks {a.chunks}] with reshape(x, t, merge_chunks=False) [chunks {b.chunks}], same name: {a.name == b.name}: {why}",
                )
                return


def run_case(case, ctx):
    op = case[0]
    if op == "joint":
        return run_joint(case, ctx)
    if op == "rpair":
        return run_rpair(case, ctx)
    f_da, f_np, chs, post = build(case, ctx.seed)
    nontrivial = any(len(ax) >= 2 for ch in chs if ch for ax in ch)
    sub = known_class(case)
    suffix = f":{sub}" if sub else ""
    with warnings.catch_warnings():
        warnings.simplefilter("ignore")
        try:
            want = np.asanyarray(f_np())
            np_exc = None
        except Hang:
            raise
        except Exception as e:  # noqa: BLE001
            want, np_exc = None, e
        r = None
        try:
            r = f_da()
            if hasattr(r, "__dask_graph__"):
                got, problem = arr.compute_blocks(r)
            else:
                got, problem = np.asanyarray(r), None
            d_exc = None
        except Hang:
            raise
        except Exception as e:  # noqa: BLE001
            got, problem, d_exc = None, None, e
    ctx.case(case, nontrivial=nontrivial, outcome=(None if want is None else want.shape, type(np_exc).__name__, type(d_exc).__name__))
    if np_exc is not None:
        if d_exc is None:
            if op == "broadcast_to":
                ctx.violation(f"{op}:numpy-raises-dask-returns{suffix}", case, f"NumPy raises {np_exc!r}; dask returned shape {got.shape}")
                return
            ctx.count("inapplicable")
            ctx.count("numpy_raises_dask_returns")
        else:
            ctx.count("both_raise")
        return
    if d_exc is not None:
        if isinstance(d_exc, NotImplementedError) or any(op == f and frag in str(d_exc) for f, frag in REFUSALS):
            ctx.count("rejected")
            ctx.count(f"rejected_{op}")
            return
        ctx.violation(f"{op}:dask-raises:{type(d_exc).__name__}{suffix}", case, f"dask raised {d_exc!r}; NumPy gives shape {want.shape}")
        return
    if problem:
        ctx.violation(f"{op}:lazy-metadata{suffix}", case, problem)
        return
    if hasattr(r, "__dask_graph__") and r.dtype != got.dtype:
        ctx.violation(f"{op}:lazy-dtype{suffix}", case, f"lazy dtype {r.dtype} != computed {got.dtype} (NumPy {want.dtype})")
        return
    if post is not None and got.shape == want.shape:
        got, want = post(got), post(want)
    why = arr.equal(got, want)
    if why:
        cls = "wrong-shape" if why.startswith("shape") else ("wrong-dtype" if why.startswith("dtype") else "wrong-value")
        ctx.violation(f"{op}:{cls}{suffix}", case, why)


def run_shard(shard, ctx):
    if shard[0] in JOINT:
        fam, part, k = shard
        for i, ((b, sub), variants) in enumerate(joint_groups(fam, ctx.tier).items()):
            if i % k != part:
                continue
            if ctx.out_of_time():
                return
            case = ("joint", fam, ctx.tier, b, sub)
            ctx.guard(case, run_joint, case, ctx, variants, seconds=240.0)
        return
    for case in cases_of(shard, ctx.tier):
        if ctx.out_of_time():
            return
        ctx.guard(case, run_case, case, ctx)


def replay(case, ctx):
    run_case(case, ctx)
