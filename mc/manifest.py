"""Regenerates /verif/MANIFEST.json from the table below:  python3 -m mc.manifest"""
import json
import os

ROOT = os.path.dirname(os.path.dirname(os.path.abspath(__file__)))

MC = "model_checking"
EX = "exploration"

SCHED_NOTE = (
    "Trusted: the controlled executor + patched dask.local.queue_get reproduce exactly the dequeue orders a real pool can produce "
    "(argument in DESIGN G3; re-checked on every run by a settrace thread-affinity pass on the real ThreadPoolExecutor); the "
    "independent reference evaluator; bounds as stated in the evidence rule."
)

# id -> (category, text, design_ref, note, technique)
CHECKS = {}


def add(pid, cat, text, ref, note, tech):
    CHECKS[pid] = (cat, text, ref, note, tech)


add("C01", MC, "Every completion order of every scheduler run over all small graphs/requests/configs is enumerated on the real get_async/threaded/multiprocessing/custom-executor code and the returned value compared with an independent evaluator: a coverage statement over schedules, which the property quantifies over.", "5/C01", SCHED_NOTE,
    "stateless exhaustive interleaving exploration (DFS over completion orders) of the real scheduler under a controlled executor")
add("C02", MC, "Same exhaustive completion-order exploration; per execution the task-body log and pretask snapshots are checked: each needed task once, unneeded never, every dependency finished and cached at start.", "5/C02", SCHED_NOTE,
    "stateless exhaustive interleaving exploration of the real scheduler with execution-log oracle")
add("C03", MC, "Same exploration; at every callback point of every execution the real cache/released sets are compared with an abstract must-hold model stepped by the same completion events (both directions of conformance).", "5/C03", SCHED_NOTE,
    "exhaustive interleaving exploration with per-state invariant against an abstract bookkeeping model")
add("C04", MC, "Every failing-task set (size <= 2/3) x exception kind x completion order on every small graph and entry point: the raised exception's type/message, absence of dependents in the execution log, absence of deadlock (empty queue with nothing pending) and exactly-once finish(failed=True) are checked on every execution.", "5/C04", SCHED_NOTE,
    "exhaustive fault-set x interleaving exploration of the real scheduler")
add("C05", MC, "(a) callback protocol checked on every execution of the exhaustive completion-order sweep; (b) breadth-first search over all histories (depth 6/8) of enter/exit/register/unregister/get on the real dask.callbacks objects against a stack-of-frames reference model.", "5/C05", SCHED_NOTE + " Part (b): LIFO exits only; unregister only outside open contexts.",
    "explicit-state BFS over operation histories + exhaustive interleaving exploration")
ARR_NOTE = "Trusted: NumPy as reference on the concatenated data; sync scheduler; enumeration bounds as in the evidence rule. Known findings (known_findings.json) are matched by narrow (index-kind, failure-class, input-class) keys."
add("C20", EX, "Bounded-exhaustive: every chunking x every slice/int/index-vector/mask of every small 1-d array, all index tuples over boundary-hitting per-axis alphabets in 2-d, vindex point lists and .blocks indexers, each compared with NumPy including lazy shape/chunks and per-block shapes.", "5/C20", ARR_NOTE,
    "bounded exhaustive enumeration of inputs (all chunkings x all indices of small arrays) against a NumPy reference model")
GRAPH_NOTE = "Trusted: the harness's own reference (Kahn / reachability / recursive evaluator), int keys making set order a function of the enumerated labelling, PYTHONHASHSEED=0 for string keys; bounds as in the evidence rule."
add("C06", EX, "Bounded-exhaustive: order() is run on every DAG with <= 5 (6) nodes x node kinds x external references x key styles x insertion orders (quick additionally: every 6-node DAG whose kinds contain >= 3 list nodes with > 1 dependency) and on every one-back-edge cyclic variant; distinctness, dependency consistency, key set and cycle rejection are checked on each.", "5/C06", GRAPH_NOTE,
    "bounded exhaustive enumeration of all small labelled DAGs with invariant check")
add("C07", EX, "Bounded-exhaustive: ALL labelled digraphs with <= 4 (5) nodes x all start-key subsets; toposort/getcycle/isdag compared with a reference, every call under a watchdog so non-termination is a reported violation.", "5/C07", GRAPH_NOTE,
    "bounded exhaustive enumeration of all small digraphs x start sets against a reference algorithm")
add("C09", EX, "Bounded-exhaustive: every optimisation (cull, inline, inline_functions, fuse_linear, fuse over a parameter grid, task-spec fusion/cull, resolve_aliases, Task.fuse, substitute) applied to every small DAG x kinds x key styles x every requested-key subset; the optimised graph is evaluated and compared with the reference values of the original, and returned dependency maps are compared with the returned graph.", "5/C09", GRAPH_NOTE,
    "bounded exhaustive enumeration of small graphs x request subsets x parameter grid with differential evaluation")
add("C11", EX, "All pairs over a constructed universe of ~20k task nodes (every argument tuple, hence every permutation, nesting depth 2): pairs are decided by grouping on (type, token); every equal pair is evaluated on every assignment of its references.", "5/C11", "Trusted: GraphNode.__eq__ is token-based (read from the code), so token groups contain every equal pair.",
    "exhaustive all-pairs comparison over a bounded constructed universe (group by token, evaluate each equal pair)")
add("C12", EX, "All pairs over a constructed universe (~7.4k values: builtins, nested containers, every 0/1 array of 7 small shapes x 12 dtypes x 7 memory layouts, object arrays, pandas objects incl. every block placement, dataclasses, partials, lambdas), decided by grouping on the token against an independent structural equality; determinism under repeat, deepcopy, pickle, reconstruction and two other hash seeds in child interpreters.", "5/C12", "Trusted: the structural oracle canon(); the universe is finite and stated in the evidence rule.",
    "exhaustive all-pairs injectivity check over a bounded constructed universe (group by token) + determinism replays across interpreters")
PY_NOTE = "Trusted: the plain-Python / NumPy / pandas reference on the concatenated data; sync scheduler; bounds as in the evidence rule; known findings matched by narrow (operation, failure-class, input-class) keys."
add("C48", EX, "Every short sequence x every partitioning with empty partitions x every bag operation of the statement (with split_every, both shuffle methods, multi-stage task shuffles, initial values) runs on the real Bag code and is compared with the plain-Python one-liner on the concatenated sequence, as a multiset wherever bags promise no order. Bounded-exhaustive, not sampled.", "5/C48", PY_NOTE,
    "bounded exhaustive enumeration (all sequences x all partitionings x all operations) against a plain-Python reference model")
add("C49", EX, "All small populations x all partitionings with empty partitions x every k x split_every x RNG seeds: samples are sub-multisets of the right size, choices are members, and random_sample(random_state) is identical across sync, threaded, recomputation and rebuild.", "5/C49", PY_NOTE,
    "bounded exhaustive enumeration against a multiset/subsequence oracle")
add("C50", EX, "Every small file content x delimiter (single, self-overlapping, 2-letter, newline family, 2-byte unicode) x every blocksize x 1-3 files x files_per_partition x include_path is read through the real read_bytes/read_text from memory:// and compared with bytes.join / str.split.", "5/C50", PY_NOTE,
    "bounded exhaustive enumeration of file contents x blocksizes against a plain-Python reference model")
add("C13", EX, "Bounded-exhaustive pair sweep of a constructed universe of ~334 near-identical collections (arrays, bags, delayed, dataframes, unseeded random) on the real dask.compute path: every pair is computed together (optimize_graph on/off), each member alone, and compared with an eager reference.", "5/C13", PY_NOTE,
    "small-scope exhaustive enumeration (all pairs/triples of a near-collision universe) against a NumPy/pandas/Python reference")
add("C14", EX, "Exhaustive enumeration of nested argument templates (depth <= 2, thorough 3) over every container kind the statement names and 7 collection kinds, through compute/persist/optimize under every traverse / optimize_graph / scheduler option; the reference is a structural map with eager values.", "5/C14", PY_NOTE,
    "small-scope exhaustive template enumeration against a structural reference model")
add("C15", EX, "Bounded-exhaustive enumeration of delayed expression programs (every operation at level 1, representative-closed deeper levels to depth 3, thorough 4) on the real dask.delayed, each compared with the same AST evaluated eagerly, plus key-determinism, key-injectivity and nout oracles.", "5/C15", PY_NOTE,
    "small-scope exhaustive program enumeration against an eager Python evaluator")
add("C26", EX, "Bounded-exhaustive exploration on the real overlap code: every chunking x depth x boundary (including asymmetric depths and the rechunk-to-fit path) of small 1-d/2-d/3-d arrays through overlap/trim_internal, map_overlap and sliding_window_view, compared exactly with np.pad + whole-array stencils and NumPy's sliding_window_view.", "5/C26", ARR_NOTE,
    "small-scope exhaustive enumeration (all chunkings x depths x boundaries) against a NumPy reference")
add("C35", EX, "Bounded-exhaustive exploration of map_blocks, blockwise and apply_gufunc over every chunking of small inputs with probing user functions whose received blocks are located by their distinct values: one call per output block, block alignment incl. broadcast blocks, block_id/block_info truth, metadata of drop_axis/new_axis/adjust_chunks, values against NumPy / np.vectorize.", "5/C35", ARR_NOTE,
    "small-scope exhaustive enumeration with value-traced probe functions against a NumPy reference")
add("C17", MC, "Breadth-first search over ALL histories (depth 4/5) of config.set enter/exit calls (single and multi-key, both spellings, prefix conflicts, kwargs form) on a real private config dict against a deepcopy snapshot-stack model, plus exhaustive small-scope enumeration of update/merge (all ordered pairs of 47 nested dicts x priorities x defaults), collect_env (all environments of <= 2 variables) and serialize round trips.", "5/C17", "Trusted: the snapshot-stack model and the reference update() written from the docstrings; LIFO exits only.",
    "explicit-state BFS over operation histories of the real config machinery with a reference model")
add("C18", EX, "format_bytes is checked on every n < 2**20 and on both end points of EVERY rounding class of every unit band up to 2**60 (its output is a monotone function of the class, so this covers all integers); parse_bytes/parse_timedelta on every documented unit x every letter-case mask x numeric prefixes against the documented multiplier table; key_split/natural_sort_key on every string of length <= 4 over 9 characters.", "5/C18", "Trusted: the monotonicity/class argument for format_bytes (stated in the evidence assumptions); the documented multiplier table.",
    "bounded exhaustive enumeration of rounding classes / unit spellings / short strings")
add("C51", EX, "ALL terms of depth <= 2 over a small signature (once with the constants 'a', 1 and once with the falsy constants '', 0) x ALL left-hand sides of depth <= 2 with variables (single-rule sets) and all pairs of depth <= 1 patterns (multi-rule sets): the multiset of (rule, bindings) from iter_matches is compared with a brute-force structural matcher, and top-level rewrite with the set of admissible results.", "5/C51", "Trusted: the brute-force matcher (arity-sensitive, consistent variable binding).",
    "bounded exhaustive enumeration of terms x rule sets against a brute-force reference matcher")
add("C25", EX, "Every pipeline of depth <= 2 (thorough <= 3) over a 50-step alphabet of array operations on every chunking of five small shapes is built on the real dask code; on each resulting node the computed shape/dtype, the shape of every block computed alone (to_delayed and .blocks) and the reassembly of the blocks are compared with the lazy .shape/.dtype/.chunks.", "5/C25", ARR_NOTE,
    "bounded exhaustive program enumeration (all pipelines x all chunkings) with per-block metadata invariant")
add("C30", EX, "Every program of depth <= 2 (thorough <= 3) over the operations the array expression engine implements, on every chunking of five small shapes and seven base kinds, is executed by NumPy, by the classic engine and - in a child interpreter with array.query-planning enabled - by the expression engine; values, dtype, shape, lazy chunks and per-block shapes of the optimized/lowered expression are compared.", "5/C30", ARR_NOTE + " The expression engine runs in a child interpreter started with DASK_ARRAY__QUERY_PLANNING=True (handshake asserts the engine and the dask tree).",
    "bounded exhaustive program enumeration, three-way differential (NumPy / classic engine / expression engine)")

DF_NOTE = "Trusted: pandas 3.0 on the whole frame as reference; the hollow pyarrow stand-in (mc/shims) only makes dask.dataframe importable and raises on any real pyarrow use (such cases are counted out_of_scope); sync scheduler; known findings matched by narrow (operation, failure-class, input-class) keys."
add("C53", MC, "(h) Breadth-first search over ALL histories (depth 8/10) of create / pickle / copy / deepcopy / dumps / loads / delete / acquire / release on real SerializableLock objects (<= 4 live handles, 2 pickled blobs) against a lock-class-per-token model, deduplicated on model AND real state (lock-object partition, registry membership); (t) ALL interleavings of 2 and 3 logical threads contending on copies at lock-operation granularity.", "5/C53", "Trusted: the per-token class model; logical threads stepped at lock-operation granularity (a real free-running 4-thread run is a conformance pass).",
    "explicit-state BFS over operation histories + exhaustive interleaving exploration of logical threads on the real lock objects")
add("C19", EX, "Every chunking of every broadcast-compatible small shape pair x operators/ufuncs x all dtype pairs x dask/NumPy/scalar operand kinds is executed on real dask and compared exactly (values, dtype, block shapes) with the same NumPy call; plus unary ufuncs, where, ufunc where=/out=, astype, clip.", "5/C19", ARR_NOTE,
    "bounded exhaustive differential enumeration against NumPy")
add("C24", EX, "Every chunking of small 1-d to 4-d shapes x the full argument alphabet of each structural operation (reshape targets, axes, widths, pad modes, index vectors, shuffle groupings) is executed on real dask and compared exactly with NumPy, including lazy chunks against computed block shapes.", "5/C24", ARR_NOTE,
    "bounded exhaustive differential enumeration against NumPy")
add("C28", EX, "Every relation of the statement (same seed => same bits across rebuild / threads / reverse completion order / block-alone / recomputation; unseeded arrays distinct and independent; choice(replace=False) draws distinct members) is evaluated on the real dask.array.random code for an exhaustively enumerated small scope of seeds, APIs, distributions, shapes and all chunkings.", "5/C28", ARR_NOTE,
    "bounded exhaustive enumeration with metamorphic determinism/independence oracles and a controlled-executor reverse-order schedule")
add("C29", EX, "Every (chunking, region, lock, mode, scheduler) combination of a stated small scope is executed on the real da.store against a NumPy reference assignment (cells outside the region untouched, nothing written before a deferred compute); completion orders of the threaded scheduler are enumerated to one deviation with the controlled executor; to_npy_stack/from_npy_stack round trips for every chunking x axis (and every chunking of 11/12 elements into >= 11 blocks); the same source stored twice; mutual exclusion of writers is decided with a rendezvous target (a writer inside __setitem__ waits for a second one, which can enter iff the lock setting lets it) over every lock kind x target layout.", "5/C29", ARR_NOTE,
    "bounded exhaustive enumeration against a NumPy reference target with bounded completion-order exploration")
add("C31", EX, "Each tensor routine (tensordot, dot, matmul, outer, vdot, inner, einsum) is executed for every chunking of an enumerated set of shapes and axes specs and compared exactly with NumPy; qr and svd are checked against their defining equations for every chunking of small matrices.", "5/C31", ARR_NOTE,
    "bounded exhaustive enumeration against NumPy with algebraic-identity oracles for the decompositions")
add("C46", EX, "Exhaustive small-scope exploration of the real dask.dataframe rolling / cumulative / shift / fill / map_overlap code: every partitioning with truthful known divisions (empty partitions included) x NaN-run placements x window/periods/limit alphabets, compared with pandas on the unpartitioned frame.", "5/C46", DF_NOTE,
    "bounded exhaustive differential enumeration against pandas")
add("C47", EX, "CSV half only (parquet needs the real pyarrow library, absent here): every file of a small CSV grammar plus hand-written corner files x every blocksize, and every partitioning x every to_csv layout read back, compared with pandas.", "5/C47 and section 6", DF_NOTE + " The parquet half of the statement is NOT covered (pyarrow cannot be installed).",
    "bounded exhaustive differential enumeration against pandas (all blocksizes, all partitionings)")
add("C52", MC, "(a) one Profiler active inside the exhaustive completion-order sweep (incl. every single failing task and a second get under the same profiler): exactly one entry per task that reached posttask, start <= end; (b) ALL histories of <= 2 (3) get calls under one Cache over 3 graph shapes x values from an alphabet with key-like strings, task-like tuples and lists of keys x every request subset, compared with the cache-free values.", "5/C52", SCHED_NOTE + " The absent cachey package is replaced by a 20-line stand-in (nbytes + dict-backed cache object); dask/cache.py runs unmodified.",
    "exhaustive interleaving exploration (profiler) + exhaustive enumeration of get histories (cache) on the real callbacks")
add("C16", MC, "clone / bind / wait_on / checkpoint applied to arrays (blockwise and materialized layers), bags, delayed trees and dataframes built from recording task functions, for every kind pair x omit x seed x assume_layers x split_every x optimize_graph; each construction is computed through the real get_async under EVERY completion order with <= 1 (3) deviations from FIFO and the execution log is judged in each: values unchanged, clone keys disjoint, children strictly after parents, checkpoint after all inputs.", "5/C16", SCHED_NOTE + " uuid4 is made deterministic during a compute so that replayed schedule prefixes see the same optimized graph.",
    "deviation-bounded exhaustive interleaving exploration of the real scheduler with execution-log oracle")
add("C08", EX, "EVERY legacy expression of depth <= 2 (3) over keys (str and tuple), literals, key-like strings protected by literal/quote, nested calls, lists and dicts is placed in a graph and evaluated by dask.get, threaded.get and convert_legacy_graph+execute_graph against a reference interpreter of the stated legacy semantics; reported dependencies are compared with the syntactically referenced keys and a pickle round trip must keep dependencies and value; the same grammar builds Task/List/Dict/Alias/DataNode graphs directly.", "5/C08", GRAPH_NOTE,
    "bounded exhaustive enumeration of a term grammar against a reference interpreter")
add("C10", EX, "(a) _fuse_annotations on ALL ordered pairs of the 324 annotation dicts of the stated alphabet against the reference merge; (b) EVERY sequence of <= 3 blockwise steps (elementwise, transpose, second root, broadcast, new axis, concatenate=True reduction, contraction) x every chunking with numblocks <= 2x2 x root kinds, annotated per step: optimize_blockwise, fuse_roots and the array optimiser must compute the NumPy values and a fully fused stack must carry the reference-merged annotations; (c) HighLevelGraph.cull for EVERY non-empty subset of output blocks and Blockwise._cull_dependencies vs the materialised tasks.", "5/C10", ARR_NOTE,
    "bounded exhaustive enumeration of layer stacks x chunkings x output-block subsets with differential evaluation")
add("C27", EX, "Every small 1-d/2-d array over a tiny value alphabet with duplicates and NaN x every chunking including empty chunks x every parameter combination of each counting/set/search/histogram routine (unique, bincount, histogram, histogram2d, digitize, searchsorted, isin, nonzero family, ravel/unravel_index, coarsen, compress), compared with NumPy including lazy shape/chunks and per-block shapes.", "5/C27", ARR_NOTE,
    "bounded exhaustive enumeration of inputs (all chunkings x all small arrays x parameter grids) against a NumPy reference model")
add("C33", EX, "Every mask (and nomask) of every small array x every chunking x three constructions x fill values x a fixed list of construction, elementwise, reduction/scan, accessor and masking operations, compared with numpy.ma (mask, unmasked data, dtype, fill value, block shapes).", "5/C33", ARR_NOTE,
    "bounded exhaustive enumeration (all masks x all chunkings x operation list) against a numpy.ma reference")
add("C34", EX, "A grid of arguments for each creation routine (arange incl. fractional/negative steps, linspace, eye, diag, diagonal, indices, meshgrid, fromfunction, tri, ones/zeros/full/empty and *_like) x every chunks argument, compared with the NumPy routine for values (ulp-level tolerance only for float ranges), dtype, shape, chunks and per-block shapes.", "5/C34", ARR_NOTE,
    "bounded exhaustive enumeration of argument grids x all chunk specifications against NumPy")
add("C22", EX, "Every chunking (including zero-length chunks) of all small 1-d, 2-d and 3-d shapes x every axis selection x keepdims x split_every x every reduction, scan, topk and quantile op, on distinct-int, tie and all-NaN/inf-placement data, compared with NumPy (exact except mean/var/std/moment/nanquantile, rtol 1e-9*n).", "5/C22", ARR_NOTE,
    "small-scope exhaustive enumeration of the real dask.array reductions against NumPy")
add("C32", EX, "Every 1-d array over 4 levels x every chunking x every sorted q sub-vector x method on da.percentile, checked for exactly the statement (bounds, monotonicity, end-points); da.nanpercentile on every NaN placement of small 1-d and 2-d arrays x every chunking x axis compared with np.nanpercentile.", "5/C32", ARR_NOTE,
    "small-scope exhaustive enumeration; statement-only oracle for the approximate part, NumPy reference for the nan part")
add("C41", EX, "Programs of up to two operations (row selection, loc, repartition, set_index, partition selection, merge/join/concat/arithmetic against differently partitioned frames, blockwise/window/index ops) over every small sorted index and every from_pandas layout; wherever known divisions are reported, npartitions and the index range of every partition the optimised graph really produces are compared with them.", "5/C41", DF_NOTE,
    "bounded exhaustive program enumeration against an invariant oracle")
add("C44", EX, "Every small sorted index x every truthful source division vector (empty partitions allowed) x every legal target division vector / npartitions / partition_size, plus every small index through from_pandas: the computed frame and the individual partitions are compared exactly with the source rows, their order and the requested layout.", "5/C44", DF_NOTE,
    "bounded exhaustive enumeration against a pandas reference")
add("C45", EX, "Exhaustive small-scope enumeration of the real division planners: every sorted sequence up to length 8 (thorough 12) with every npartitions/chunksize through sorted_division_locations, every small weighted summary through process_val_weights, and every small unsorted partitioned series through the quantile / set_index path, checked against the statement's invariants.", "5/C45", DF_NOTE,
    "bounded exhaustive enumeration against an invariant oracle")
add("C37", EX, "Every reduction of the statement is evaluated on the real dask.dataframe code for every partitioning (including empty partitions) of 4-row (5-row) frames of seven column kinds, for both axes, skipna/numeric_only/ddof/min_count options and every split_every tree shape, and compared exactly (floats within 1e-9*n) with pandas on the whole frame.", "5/C37", DF_NOTE,
    "bounded exhaustive enumeration (all partitionings x option products x split_every) against pandas")
add("C38", EX, "Groupby aggregations (single, list, dict, named), cumulative operations, transform/shift/ffill/bfill and value_counts for eight key kinds over every partitioning of a 5-row (6-row) frame and every sort x dropna/observed x split_out x shuffle_method x split_every configuration, compared with pandas, order checked only where promised.", "5/C38", DF_NOTE,
    "bounded exhaustive enumeration (partitionings x key kinds x operations x configuration products) against pandas groupby")
add("C39", EX, "Every pair of partitionings (empty partitions, known and unknown divisions) of two tiny frames x key scenario x how x join strategy (broadcast / shuffle tasks / disk) for merge/join, merge_asof variants and concat layouts, compared with pandas on the whole frames.", "5/C39", DF_NOTE + " p2p shuffles need distributed and are outside the alphabet.",
    "bounded exhaustive enumeration against a pandas reference")
add("C40", EX, "shuffle / sort_values / set_index / drop_duplicates / unique / nunique over every partitioning (including empty partitions) of a 6-row frame with NA, string, categorical and nullable keys x output partition counts x shuffle method (tasks, disk, forced multi-stage): keys co-located, row multiset preserved, results equal pandas.", "5/C40", DF_NOTE,
    "bounded exhaustive enumeration against a pandas reference")
add("C21", EX, "Exhaustive small-scope enumeration of every chunking x index (all slices, ints, index vectors, boolean masks as list/ndarray/dask array, 2-d index tuples over boundary-hitting alphabets) x value kind (scalar, exact, broadcast, dask with every chunking) on the real Array.__setitem__/setitem_array, compared cell by cell with the same assignment on a NumPy copy; chunks unchanged, source array untouched.", "5/C21", ARR_NOTE,
    "bounded exhaustive differential enumeration (all chunkings x index alphabets x value kinds) against NumPy")
add("C23", EX, "Every chunk spec, limit, dtype and previous_chunks of a small scope goes through the real normalize_chunks/auto_chunks, and every source/target chunking pair goes through the real rechunk/plan_rechunk, including forced multi-stage plans, zero-length chunks and spec targets; the statement's invariants, exact chunks and unchanged values are judged on each element.", "5/C23", ARR_NOTE + " array.chunk-size-tolerance is treated as documented configuration (auto blocks may exceed the limit by that factor when previous_chunks are given).",
    "bounded exhaustive enumeration of chunk specs and chunking pairs with invariant and NumPy-equality oracles")
add("C36", EX, "Every program of <= 2 (thorough 3) row-wise steps over a typed alphabet of ~80 frame and 40-60 per-kind series operations (projection, filters, assign, arithmetic/comparison with scalars and aligned series/frames, astype, fillna, where/mask, isin, clip, map/apply, rename, str/dt/cat accessors), on 6 frames x all small partitionings (with empty partitions) x 5 index kinds x known/unknown divisions, executed on the real engine and compared exactly (values, dtypes, index, order) with the same program on pandas; failing programs are delta-debugged and keyed by the responsible operation.", "5/C36", DF_NOTE,
    "bounded exhaustive typed-program enumeration against pandas")
add("C42", EX, "Every 1- and 2-step program over the union of the row-wise, reduction, groupby, join, sort/shuffle and window alphabets on 6 frames x up to 8 partitioning/division configurations is built lazily; its ._meta is compared (type, columns, dtypes, names, index dtype) with the computed result and with each separately computed partition; disagreements are keyed by operation and exact dtype pair.", "5/C42", DF_NOTE,
    "bounded exhaustive program enumeration, lazy metadata vs computed whole and per-partition objects")
add("C43", EX, "Every program of <= 3 (thorough 3-4) steps over an alphabet built to trigger projection/filter pushdown, assign merging, filter rewriting and fusion (shared sub-expressions, shadowing assigns, reductions inside predicates) is optimized under a watchdog (non-termination / 'does not converge' are violations); baseline (lowered-only), optimized and re-optimized expressions are executed without implicit optimisation and compared with pandas; the first wrong optimizer stage and a delta-debugged minimal program name each finding.", "5/C43", DF_NOTE,
    "bounded exhaustive DAG-program enumeration with stage-wise materialisation of the optimizer pipeline")


def build():
    checks = []
    for pid in sorted(CHECKS):
        cat, text, ref, note, tech = CHECKS[pid]
        checks.append(
            {
                "property_id": pid,
                "quick_cmd": f"./check {pid} quick",
                "thorough_cmd": f"./check {pid} thorough",
                "evidence_file": f"/verif/evidence/{pid}.json",
                "replay_cmd_template": f"./check {pid} --replay {{path}}",
                "engine": "mc",
                "level_claimed": {"category": cat, "text": text, "design_ref": f"DESIGN.md section {ref}"},
                "level_note": note,
                "technique": tech,
            }
        )
    props = [json.loads(l)["id"] for l in open(os.path.join(ROOT, "properties.jsonl"))]
    na_reasons = json.load(open(os.path.join(ROOT, "mc", "not_applicable.json")))
    na = []
    for pid in props:
        if pid not in CHECKS:
            na.append({"property_id": pid, "reason": na_reasons.get(pid, "check not built yet in this session (planned in DESIGN.md section 5); not claimed until it runs clean on the unchanged tree")})
    man = {
        "version": 1,
        "setup_cmd": "/venv/bin/python -m compileall -q /verif/mc && /venv/bin/python -c \"import json; json.load(open('/verif/MANIFEST.json')); json.load(open('/verif/known_findings.json'))\"",
        "hooks": {
            "guard": "DASK_VERIF",
            "enable": "No source hooks: every seam (executor pool=, dask.local.queue_get module global, callbacks, config) is reached at run time by the harness; ./check exports DASK_VERIF=1 but nothing in /repo reads it.",
            "baseline_off_cmd": "cd /repo && /venv/bin/python -m pytest -ra -q -p no:cacheprovider --timeout=900 --continue-on-collection-errors",
            "source_commits": [],
            "add_only": True,
        },
        "engines": [
            {"name": "mc", "path": "/verif/mc", "serves_properties": sorted(CHECKS),
             "kind_free_text": "hand-written explicit-state / stateless explorers for Python driving the real dask code: E1 choice-point DFS (mc/explore.py), E2 controlled-executor scheduler harness (mc/sched.py), E3 history BFS (mc/history.py), E4 small-scope exhaustive enumerators with reference models, E5 sharded runner/evidence/replay (mc/run.py)"}
        ],
        "checks": checks,
        "not_applicable": na,
        "notes": "Genuine defects found are either repaired by fix: commits in /repo or listed in /verif/known_findings.json (see DESIGN.md section 7). Exit codes: 0 ok, 1 VIOLATION, 2 harness error.",
    }
    with open(os.path.join(ROOT, "MANIFEST.json"), "w") as f:
        json.dump(man, f, indent=1)
    return man


if __name__ == "__main__":
    m = build()
    print(f"MANIFEST.json: {len(m['checks'])} checks, {len(m['not_applicable'])} not claimed")
