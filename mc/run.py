"""E5 -- runner: sharding, watchdog, evidence, replay files, known findings.

Usage (cwd=/verif, through ./check):  python -m mc.run <ID> [quick|thorough] [--replay FILE]

A property module mc/props/<ID>.py provides
    ID, LEVEL ("model_checking" | "exploration"), RULE (str or rule(tier)),
    ASSUMPTIONS (list of str), shards(tier) -> list of literal shard descriptors,
    run_shard(shard, ctx)  (calls ctx.case / ctx.violation ...),
    replay(case, ctx)      (re-executes ONE case; calls ctx.violation as run_shard would)
optional: HANG_IS_VIOLATION (bool), WATCHDOG_S (float), setup() called once before fork,
          conformance(ctx) run once in the master (cheap binding checks, not deciding).
"""
from __future__ import annotations

import ast
import collections
import hashlib
import importlib
import json
import multiprocessing as mp
import os
import signal
import subprocess
import sys
import time
import traceback

ROOT = os.path.dirname(os.path.dirname(os.path.abspath(__file__)))
REPO = os.environ.get("MC_REPO", "/repo")
EVIDENCE_DIR = os.environ.get("MC_EVIDENCE_DIR", os.path.join(ROOT, "evidence"))
REPLAY_DIR = os.environ.get("MC_REPLAY_DIR", os.path.join(ROOT, "replays"))
KNOWN_FILE = os.path.join(ROOT, "known_findings.json")
NPROC = int(os.environ.get("MC_NPROC", str(min(16, os.cpu_count() or 1))))
_DUMP = os.environ.get("MC_DUMP")  # debugging aid: append every (key, case) to this path prefix
STATE_CAP = 400_000  # per-shard cap on the number of state hashes shipped to the master


class Hang(BaseException):
    """Raised by the SIGALRM watchdog inside a case."""


class HarnessError(Exception):
    pass


def _h64(obj) -> int:
    return int.from_bytes(hashlib.blake2b(repr(obj).encode(), digest_size=8).digest(), "big")


class Ctx:
    """Per-shard collector handed to property modules."""

    def __init__(self, prop, tier, seed, deadline=None, watchdog_s=5.0, hang_is_violation=False):
        self.prop, self.tier, self.seed = prop, tier, seed
        self.deadline = deadline
        self.watchdog_s = watchdog_s
        self.hang_is_violation = hang_is_violation
        self.evaluations = 0
        self.nontrivial = set()
        self.nontrivial_overflow = 0
        self.counters = collections.Counter()
        self.outcomes = set()
        self.samples = []
        self.violations = {}  # key -> dict(case, detail, count)
        self.states = set()
        self.states_overflow = 0
        self.transitions = 0
        self.traces = 0
        self.capped = False
        self.slow = []
        self._cur = None

    # ------------------------------------------------------------------ counting
    def case(self, case, nontrivial=True, outcome=None, n=1):
        """Record one evaluated case (or n evaluations of one distinct case)."""
        self.evaluations += n
        if nontrivial:
            if len(self.nontrivial) < 3_000_000:
                self.nontrivial.add(_h64(case))
            else:
                self.nontrivial_overflow += 1
        if outcome is not None and len(self.outcomes) < 100_000:
            self.outcomes.add(_h64(outcome))
        if len(self.samples) < 3:
            self.samples.append(_short(case))

    def count(self, name, n=1):
        self.counters[name] += n

    def state(self, s):
        if len(self.states) < STATE_CAP:
            self.states.add(_h64(s))
        else:
            self.states_overflow += 1

    def transition(self, n=1):
        self.transitions += n

    def trace(self, n=1):
        self.traces += n

    def violation(self, key, case, detail=""):
        if _DUMP:
            with open(f"{_DUMP}.{os.getpid()}", "a") as f:
                f.write(f"{key}\t{case!r}\t{str(detail)[:300]!r}\n")
        v = self.violations.get(key)
        if v is None:
            self.violations[key] = {"case": case, "detail": str(detail)[:2000], "count": 1}
        else:
            v["count"] += 1
            if len(repr(case)) < len(repr(v["case"])):
                v["case"], v["detail"] = case, str(detail)[:2000]

    def out_of_time(self):
        if self.deadline is not None and time.time() > self.deadline:
            self.capped = True
            return True
        return False

    # ------------------------------------------------------------------ guarded execution
    def guard(self, case, fn, *args, hang_key=None, seconds=None):
        """Run fn(*args) under the watchdog.  Uncaught exceptions become violations
        ("uncaught:<Type>"): property modules catch and classify what they expect."""
        seconds = seconds or self.watchdog_s
        t0 = time.time()
        _arm(seconds)
        try:
            return fn(*args)
        except Hang:
            key = hang_key or "HANG"
            if self.hang_is_violation:
                self.violation(key, case, f"no return within {seconds}s (watchdog)")
            else:
                self.slow.append(_short(case))
                self.count("watchdog_expired")
        except HarnessError:
            raise
        except Exception as e:  # noqa: BLE001
            tb = traceback.format_exc(limit=6)
            self.violation(f"uncaught:{type(e).__name__}", case, tb[-1500:])
        finally:
            _disarm()
            dt = time.time() - t0
            if dt > self.counters.get("max_case_ms", 0) / 1000.0:
                self.counters["max_case_ms"] = int(dt * 1000)
        return None

    def result(self):
        return {
            "evaluations": self.evaluations,
            "nontrivial": len(self.nontrivial) + self.nontrivial_overflow,
            "counters": dict(self.counters),
            "outcomes": list(self.outcomes)[:20000],
            "samples": self.samples,
            "violations": self.violations,
            "states": list(self.states),
            "states_overflow": self.states_overflow,
            "transitions": self.transitions,
            "traces": self.traces,
            "capped": self.capped,
            "slow": self.slow[:5],
        }


def _short(case, limit=600):
    r = repr(case)
    return r if len(r) <= limit else r[:limit] + "...<truncated>"


def _alarm_handler(signum, frame):
    raise Hang()


def _arm(seconds):
    """watchdog = `seconds` of CPU time of this process (immune to machine load: a spinning hang burns CPU)
    plus 10x that in wall-clock time (catches blocking hangs).  Both repeat, so a swallowed Hang is raised again."""
    signal.signal(signal.SIGPROF, _alarm_handler)
    signal.signal(signal.SIGALRM, _alarm_handler)
    signal.setitimer(signal.ITIMER_PROF, seconds, seconds)
    signal.setitimer(signal.ITIMER_REAL, seconds * 10, seconds * 10)


def _disarm():
    signal.setitimer(signal.ITIMER_PROF, 0)
    signal.setitimer(signal.ITIMER_REAL, 0)


def call(fn, *args, **kwargs):
    """Helper: ('ok', value) | ('exc', exception).  Hang propagates."""
    try:
        return "ok", fn(*args, **kwargs)
    except Hang:
        raise
    except Exception as e:  # noqa: BLE001
        return "exc", e


# ---------------------------------------------------------------------- worker side
_MOD = None
_CFG = None


def _worker_init():
    # one BLAS/OpenMP thread per worker; workers are already process-parallel
    os.environ.setdefault("OMP_NUM_THREADS", "1")
    signal.signal(signal.SIGINT, signal.SIG_IGN)


def _run_shard(idx_shard):
    idx, shard = idx_shard
    mod, cfg = _MOD, _CFG
    ctx = Ctx(
        mod.ID,
        cfg["tier"],
        cfg["seed"],
        deadline=cfg["deadline"],
        watchdog_s=float(os.environ.get("MC_WATCHDOG_S", getattr(mod, "WATCHDOG_S", 5.0))),
        hang_is_violation=getattr(mod, "HANG_IS_VIOLATION", False),
    )
    t0 = time.time()
    if ctx.out_of_time():
        r = ctx.result()
        r["skipped"] = True
    else:
        import shutil
        import tempfile

        # every temporary file/directory of this shard (partd spill directories of disk shuffles, csv round trips ...) lives in one
        # private directory that is removed afterwards, whatever the shard did
        td = tempfile.mkdtemp(prefix="mc-shard-")
        old_tmp = tempfile.tempdir
        tempfile.tempdir = td
        try:
            import dask

            with dask.config.set(temporary_directory=td):
                mod.run_shard(shard, ctx)
        except Hang:
            ctx.count("shard_watchdog_escape")
        except HarnessError as e:
            r = ctx.result()
            r["harness_error"] = f"{e}"
            r["shard"] = idx
            return r
        except Exception as e:  # noqa: BLE001
            ctx.violation(
                f"uncaught-shard:{type(e).__name__}", ("shard", shard), traceback.format_exc(limit=8)[-1500:]
            )
        finally:
            _disarm()
            tempfile.tempdir = old_tmp
            shutil.rmtree(td, ignore_errors=True)
        r = ctx.result()
    r["shard"] = idx
    r["wall"] = time.time() - t0
    return r


# ---------------------------------------------------------------------- master side
def load_known(prop):
    try:
        data = json.load(open(KNOWN_FILE))
    except FileNotFoundError:
        return {}
    out = {}
    for e in data.get("findings", []):
        if e.get("property") == prop and e.get("status") == "known":
            out[e["key"]] = e
    return out


def repo_fingerprint():
    def g(*a):
        try:
            return subprocess.run(["git", "-C", REPO, *a], capture_output=True, text=True, timeout=30).stdout
        except Exception:  # noqa: BLE001
            return ""

    head = g("rev-parse", "HEAD").strip()
    diff = g("diff", "HEAD", "--", "dask")
    return {"repo_head": head, "repo_diff_sha1": hashlib.sha1(diff.encode()).hexdigest() if diff else None}


def write_replay(prop, key, case, detail):
    d = os.path.join(REPLAY_DIR, prop)
    os.makedirs(d, exist_ok=True)
    safe = "".join(c if c.isalnum() or c in "-_." else "_" for c in key)[:80]
    path = os.path.join(d, f"{safe}-{_h64(key) % 10**6:06d}.json")
    with open(path, "w") as f:
        json.dump(
            {
                "property": prop,
                "key": key,
                "case": repr(case),
                "detail": detail,
                "how": f"cd /verif && ./check {prop} --replay {path}",
            },
            f,
            indent=1,
        )
    return path


def confirm_replay(prop, path, timeout=120):
    """Re-run one case in a fresh interpreter; True iff the same finding key is reproduced."""
    try:
        p = subprocess.run(
            [os.path.join(ROOT, "check"), prop, "--replay", path],
            capture_output=True,
            text=True,
            timeout=timeout,
            cwd=ROOT,
        )
    except subprocess.TimeoutExpired:
        return "timeout"
    return "reproduced" if p.returncode == 1 and "VIOLATION" in p.stdout else "not-reproduced"


def do_replay(mod, path):
    rec = json.load(open(path))
    case = ast.literal_eval(rec["case"])
    ctx = Ctx(
        mod.ID,
        "quick",
        int(os.environ.get("VERIF_SEED", "0")),
        watchdog_s=max(10.0, getattr(mod, "WATCHDOG_S", 5.0) * 3),
        hang_is_violation=getattr(mod, "HANG_IS_VIOLATION", False),
    )
    if hasattr(mod, "setup"):
        mod.setup()
    if isinstance(case, tuple) and len(case) == 2 and case[0] == "shard":
        ctx.guard(case, mod.run_shard, case[1], ctx, seconds=600)
    else:
        ctx.guard(case, mod.replay, case, ctx, hang_key=rec.get("key") if "HANG" in str(rec.get("key")) else None)
    want = rec.get("key")
    keys = list(ctx.violations)
    for k, v in ctx.violations.items():
        print(f"replayed finding key={k} detail={v['detail'][:800]}")
    if want in ctx.violations or (want is None and keys):
        print(f"VIOLATION property={mod.ID} replay={path}")
        return 1
    if keys:
        print(f"VIOLATION property={mod.ID} replay={path}  (different key than recorded: {keys})")
        return 1
    print("replay: case passes on this tree")
    return 0


def main(argv=None):
    argv = list(sys.argv[1:] if argv is None else argv)
    if not argv:
        print(__doc__)
        return 2
    prop = argv.pop(0)
    replay_path = None
    tier = os.environ.get("VERIF_TIER", "quick")
    while argv:
        a = argv.pop(0)
        if a == "--replay":
            replay_path = argv.pop(0)
        elif a in ("quick", "thorough"):
            tier = a
        else:
            print(f"unknown argument {a!r}")
            return 2
    seed = int(os.environ.get("VERIF_SEED", "0") or 0)
    sys.path.insert(0, ROOT)
    import dask

    if not os.path.abspath(dask.__file__).startswith(os.path.abspath(REPO) + os.sep):
        print(f"HARNESS-ERROR dask imported from {dask.__file__}, expected under {REPO}")
        return 2
    mod = importlib.import_module(f"mc.props.{prop}")
    if replay_path:
        return do_replay(mod, replay_path)

    t0 = time.time()
    budget = float(os.environ.get("VERIF_DEADLINE_S", getattr(mod, "BUDGET_S", {}).get(tier, 280 if tier == "quick" else 3300)))
    deadline = t0 + budget
    if hasattr(mod, "setup"):
        mod.setup()
    shards = list(mod.shards(tier))
    if os.environ.get("MC_SHARD_FILTER"):  # development aid only: run the shards whose repr contains the substring
        shards = [s for s in shards if os.environ["MC_SHARD_FILTER"] in repr(s)]
    # seed only rotates the shard order (the enumerated space does not depend on it)
    if shards and seed:
        k = seed % len(shards)
        order = list(range(len(shards)))
        order = order[k:] + order[:k]
    else:
        order = list(range(len(shards)))
    global _MOD, _CFG
    _MOD, _CFG = mod, {"tier": tier, "seed": seed, "deadline": deadline}

    agg = {
        "evaluations": 0,
        "nontrivial": 0,
        "counters": collections.Counter(),
        "outcomes": set(),
        "samples": [],
        "violations": {},
        "states": set(),
        "states_overflow": 0,
        "transitions": 0,
        "traces": 0,
        "capped": False,
        "skipped_shards": 0,
        "harness_errors": [],
        "slow": [],
    }

    def merge(r):
        if r.get("harness_error"):
            agg["harness_errors"].append(r["harness_error"])
        if r.get("skipped"):
            agg["skipped_shards"] += 1
            agg["capped"] = True
            return
        agg["evaluations"] += r["evaluations"]
        agg["nontrivial"] += r["nontrivial"]
        for k, v in r["counters"].items():
            if k.startswith("max_"):
                agg["counters"][k] = max(agg["counters"].get(k, 0), v)
            else:
                agg["counters"][k] += v
        agg["outcomes"].update(r["outcomes"])
        if len(agg["samples"]) < 6:
            agg["samples"].extend(r["samples"][:2])
        for k, v in r["violations"].items():
            a = agg["violations"].get(k)
            if a is None:
                agg["violations"][k] = dict(v)
            else:
                a["count"] += v["count"]
                if len(repr(v["case"])) < len(repr(a["case"])):
                    a["case"], a["detail"] = v["case"], v["detail"]
        agg["states"].update(r["states"])
        agg["states_overflow"] += r["states_overflow"]
        agg["transitions"] += r["transitions"]
        agg["traces"] += r["traces"]
        agg["capped"] = agg["capped"] or r["capped"]
        agg["slow"].extend(r.get("slow", []))

    work = [(i, shards[i]) for i in order]
    nproc = int(os.environ.get("MC_NPROC", str(NPROC)))
    if nproc <= 1 or len(work) <= 1:
        _worker_init()
        for w in work:
            merge(_run_shard(w))
    else:
        ctxmp = mp.get_context("fork")
        with ctxmp.Pool(min(nproc, len(work)), initializer=_worker_init) as pool:
            it = pool.imap_unordered(_run_shard, work, chunksize=1)
            while True:
                try:
                    r = it.next(timeout=max(60.0, deadline - time.time() + 600))
                except StopIteration:
                    break
                except mp.TimeoutError:
                    agg["harness_errors"].append("a shard did not finish (hard hang in a worker)")
                    pool.terminate()
                    break
                merge(r)

    conf = None
    if hasattr(mod, "conformance") and not agg["harness_errors"]:
        cctx = Ctx(mod.ID, tier, seed, watchdog_s=60.0)
        try:
            conf = mod.conformance(cctx)
        except HarnessError as e:
            agg["harness_errors"].append(str(e))
        for k, v in cctx.violations.items():
            agg["violations"].setdefault(k, v)

    # ------------------------------------------------------------ classify violations
    known = load_known(prop)
    new, hits = {}, {}
    for k, v in agg["violations"].items():
        (hits if k in known else new)[k] = v
    exit_code = 0
    lines = []
    for k, v in sorted(hits.items()):
        lines.append(f"KNOWN-FINDING: property={prop} {known[k].get('what', k)} [key={k} cases={v['count']}]")
    reported = 0
    for k, v in sorted(new.items(), key=lambda kv: len(repr(kv[1]["case"]))):
        path = write_replay(prop, k, v["case"], v["detail"])
        status = "unconfirmed"
        if reported < 4:
            status = confirm_replay(prop, path)
        v["replay_status"] = status
        is_hang = k.startswith("HANG") or "HANG" in k
        if is_hang and status != "reproduced" and status != "timeout":
            agg["counters"]["hang_not_reproduced"] += 1
            continue
        lines.append(f"VIOLATION property={prop} replay={path}  key={k} cases={v['count']} replay_status={status}")
        lines.append(f"  detail: {v['detail'][:600]}")
        reported += 1
        exit_code = 1
    if agg["harness_errors"]:
        for e in agg["harness_errors"][:5]:
            lines.append(f"HARNESS-ERROR property={prop} {e}")
        exit_code = exit_code or 2

    wall = time.time() - t0
    n_states = len(agg["states"]) + agg["states_overflow"]
    rule = mod.RULE(tier) if callable(mod.RULE) else mod.RULE
    exhaustive = not agg["capped"]
    level = mod.LEVEL
    coverage = {
        "evaluations": agg["evaluations"],
        "distinct_nontrivial": agg["nontrivial"],
        "rule": rule,
        "samples": agg["samples"][:6] or ["<none>"],
        "exhaustive": bool(exhaustive),
        "distinct_outcomes": len(agg["outcomes"]),
        "counters": {k: int(v) for k, v in sorted(agg["counters"].items())},
        "shards": len(shards),
        "skipped_shards": agg["skipped_shards"],
        "capped_by_deadline": bool(agg["capped"]),
        "known_findings_hit": {k: v["count"] for k, v in hits.items()},
        "new_violation_keys": sorted(new)[:50],
        **repo_fingerprint(),
    }
    if level == "model_checking":
        coverage.update(
            {
                "states": max(n_states, 0),
                "transitions": agg["transitions"],
                "traces_validated_against_impl": agg["traces"],
            }
        )
    if conf is not None:
        coverage["conformance"] = conf
    if agg["slow"]:
        coverage["slow_cases"] = agg["slow"][:5]
    vacuous = agg["evaluations"] == 0 or agg["nontrivial"] < 2 or (level == "model_checking" and (n_states < 1 or agg["transitions"] < 1))
    if vacuous and exit_code == 0:
        lines.append(f"HARNESS-ERROR property={prop} vacuous exploration (evaluations={agg['evaluations']}, nontrivial={agg['nontrivial']})")
        exit_code = 2
    evidence = {
        "property_id": prop,
        "tier": tier,
        "seed": seed,
        "level": level,
        "coverage": coverage,
        "assumptions": list(getattr(mod, "ASSUMPTIONS", [])),
        "wall_s": round(wall, 2),
        "violations": len(new),
    }
    os.makedirs(EVIDENCE_DIR, exist_ok=True)
    with open(os.path.join(EVIDENCE_DIR, f"{prop}.json"), "w") as f:
        json.dump(evidence, f, indent=1, default=str)
    for ln in lines:
        print(ln)
    print(
        f"[{prop} {tier}] evaluations={agg['evaluations']} nontrivial={agg['nontrivial']} "
        f"states={n_states} transitions={agg['transitions']} traces={agg['traces']} outcomes={len(agg['outcomes'])} "
        f"exhaustive={exhaustive} known_hits={len(hits)} new={len(new)} wall={wall:.1f}s exit={exit_code}"
    )
    return exit_code


if __name__ == "__main__":
    sys.exit(main())
