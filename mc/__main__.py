"""python -m mc <ID> ...   (launcher: keeps mc.run a single module instance, so mc.run.Hang is THE Hang)"""
import sys

from mc.run import main

sys.exit(main())
