"""E3 -- explicit-state BFS over operation histories on real objects.

A state *is* the history that reaches it.  `make()` returns a fresh System wrapping fresh real
objects and the boring reference model; histories are replayed from scratch (live objects
rarely copy).  A System provides
    enabled() -> list of literal ops          step(op) -> list of (key, detail) violations
    canon()   -> hashable canonical form of the property-relevant real+model state
States are deduplicated on canon(): a history reaching an already seen canonical state is
not extended (sound when every operation's effect depends only on what canon() contains --
argued per property).
"""
from __future__ import annotations


def replay(make, hist):
    s = make()
    for op in hist:
        s.step(op)
    return s


def bfs(make, depth, ctx, prefix=(), dedup=True, label=None):
    s0 = replay(make, prefix)
    seen = {s0.canon()}
    ctx.state((label, s0.canon()))
    frontier = [tuple(prefix)]
    maxd = 0
    for d in range(len(prefix), depth):
        nxt = []
        for hist in frontier:
            if ctx.out_of_time():
                return maxd
            ops = replay(make, hist).enabled()
            for op in ops:
                s = replay(make, hist)
                h2 = hist + (op,)
                try:
                    viol = s.step(op)
                except Exception as e:  # noqa: BLE001  (the real API raised inside a legal history)
                    viol = [(f"{label}:step-raised:{type(e).__name__}", f"{op} raised {e!r} after {hist}")]
                ctx.transition()
                ctx.case(h2, nontrivial=len(h2) >= 2)
                if viol:
                    for key, detail in viol[:1]:
                        ctx.violation(key, (label, h2) if label is not None else h2, detail)
                    continue
                k = s.canon()
                if dedup and k in seen:
                    continue
                seen.add(k)
                ctx.state((label, k))
                nxt.append(h2)
                maxd = max(maxd, len(h2))
        frontier = nxt
        if not frontier:
            break
    ctx.counters["max_history_depth"] = max(ctx.counters.get("max_history_depth", 0), maxd)
    ctx.trace(len(seen))
    return maxd
