"""Shared helpers for the DataFrame properties C36-C47 (reference = pandas on the whole frame).
Importing this module installs the hollow pyarrow stand-in and imports dask.dataframe."""
from __future__ import annotations

import warnings

from mc.shims import pyarrow_stub

pyarrow_stub.install()

import numpy as np  # noqa: E402
import pandas as pd  # noqa: E402

import dask  # noqa: E402
import dask.dataframe as dd  # noqa: E402
from dask import delayed  # noqa: E402

from mc import enums  # noqa: E402
from mc.shims.pyarrow_stub import PyArrowUnavailable  # noqa: E402,F401

dask.config.set(scheduler="sync")
warnings.filterwarnings("ignore")


# ------------------------------------------------------------------ base data
def base_frames(seed=0, nrows=6):
    """small frames (<= nrows rows) covering the column kinds of the properties.  Values are
    chosen by a seed-dependent permutation; the *space* of frames does not depend on the seed."""
    rng = np.random.RandomState(seed)
    perm = rng.permutation(nrows)
    ints = (np.arange(nrows) * 3 % 7 + 1)[perm]
    grp = np.array([0, 1, 0, 2, 1, 0][:nrows])[perm]
    flt = np.array([1.5, np.nan, 2.0, -3.0, np.nan, 4.25][:nrows])[perm]
    strs = np.array(["x", "yy", "x", "Zz", "yy", "w"][:nrows], dtype=object)[perm]
    frames = {
        "num": pd.DataFrame({"a": ints, "g": grp, "f": flt}),
        "str": pd.DataFrame({"a": ints, "s": strs, "g": grp}),
        "bool": pd.DataFrame({"a": ints, "b": (ints % 2 == 0), "g": grp}),
        "dt": pd.DataFrame({"a": ints, "t": pd.to_datetime("2020-01-01") + pd.to_timedelta(ints * 36, unit="h"), "g": grp}),
        "cat": pd.DataFrame({"a": ints, "c": pd.Categorical(strs, categories=["w", "x", "yy", "Zz", "unused"]), "g": grp}),
        "nullable": pd.DataFrame({"a": ints, "n": pd.array([1, None, 3, None, 5, 6][:nrows], dtype="Int64").take(perm), "g": grp}),
    }
    return frames


INDEX_KINDS = ("range", "sorted_unique", "sorted_dup", "unsorted", "datetime")


def with_index(pdf, kind):
    n = len(pdf)
    pdf = pdf.copy()
    if kind == "range":
        pdf.index = pd.RangeIndex(n)
    elif kind == "sorted_unique":
        pdf.index = pd.Index(np.arange(n) * 2 + 10, name="idx")
    elif kind == "sorted_dup":
        pdf.index = pd.Index(np.array([1, 1, 2, 4, 4, 4, 7, 9][:n]), name="idx")
    elif kind == "unsorted":
        pdf.index = pd.Index(np.array([5, 2, 9, 2, 7, 1, 8, 3][:n]), name="idx")
    elif kind == "datetime":
        pdf.index = pd.DatetimeIndex(pd.to_datetime("2021-03-01") + pd.to_timedelta(np.arange(n) * 12, unit="h"), name="ts")
    else:
        raise ValueError(kind)
    return pdf


def partitionings(nrows, maxparts=4, zeros=True):
    """every split of nrows rows into <= maxparts consecutive partitions (empty ones allowed if zeros)"""
    if zeros:
        return list(enums.compositions_with_zeros(nrows, maxparts))
    return [c for c in enums.compositions(nrows) if len(c) <= maxparts]


def divisions_for(pdf, parts):
    """known divisions for consecutive row-splits `parts` iff the index is sorted, no partition is empty and no cut
    splits equal index values; else None (unknown divisions)"""
    idx = pdf.index
    if len(pdf) == 0 or any(p == 0 for p in parts) or not idx.is_monotonic_increasing:
        return None
    bounds = np.cumsum((0,) + tuple(parts))
    for b in bounds[1:-1]:
        if idx[b - 1] == idx[b]:
            return None
    return tuple(idx[b] for b in bounds[:-1]) + (idx[-1],)


def build(pdf, parts, divisions="auto"):
    """dask frame whose partitions are exactly the consecutive row blocks `parts` of pdf (from_delayed, so empty
    partitions are real).  divisions='auto' -> known when truthful (see divisions_for), None -> unknown."""
    bounds = np.cumsum((0,) + tuple(parts))
    pieces = [delayed(pdf.iloc[int(a) : int(b)], name=f"piece-{dask.base.tokenize(pdf, parts, i)}") for i, (a, b) in enumerate(zip(bounds[:-1], bounds[1:]))]
    div = divisions_for(pdf, parts) if divisions == "auto" else divisions
    kw = {"meta": pdf.iloc[:0]}
    if div is not None:
        kw["divisions"] = div
    return dd.from_delayed(pieces, **kw)


def build_series(ps, parts, divisions="auto"):
    df = ps.to_frame(name="__s__")
    return build(df, parts, divisions)["__s__"].rename(ps.name)


# ------------------------------------------------------------------ comparison
def _norm(obj):
    if isinstance(obj, (pd.DataFrame, pd.Series, pd.Index)):
        return obj
    return obj


def equal(got, want, ordered=True, check_dtype=True, check_index=True, check_names=True, rtol=1e-9):
    """-> None if equal else a short reason.  ordered=False compares as a multiset of labelled rows."""
    try:
        if isinstance(want, pd.DataFrame):
            if not isinstance(got, pd.DataFrame):
                return f"type {type(got).__name__} != DataFrame"
            if list(got.columns) != list(want.columns):
                return f"columns {list(got.columns)} != {list(want.columns)}"
            if not ordered:
                got, want = _sorted_rows(got, check_index), _sorted_rows(want, check_index)
            if not check_index:
                got, want = got.reset_index(drop=True), want.reset_index(drop=True)
            pd.testing.assert_frame_equal(got, want, check_dtype=check_dtype, check_names=check_names, rtol=rtol, check_freq=False, check_index_type=check_dtype, check_column_type=False)
            return None
        if isinstance(want, pd.Series):
            if not isinstance(got, pd.Series):
                return f"type {type(got).__name__} != Series"
            if not ordered:
                got, want = _sorted_rows(got.to_frame("v"), check_index)["v"].rename(got.name), _sorted_rows(want.to_frame("v"), check_index)["v"].rename(want.name)
            if not check_index:
                got, want = got.reset_index(drop=True), want.reset_index(drop=True)
            pd.testing.assert_series_equal(got, want, check_dtype=check_dtype, check_names=check_names, rtol=rtol, check_freq=False, check_index_type=check_dtype)
            return None
        if isinstance(want, pd.Index):
            if not isinstance(got, pd.Index):
                return f"type {type(got).__name__} != Index"
            if not ordered:
                got, want = got.sort_values(), want.sort_values()
            pd.testing.assert_index_equal(got, want, exact=check_dtype, check_names=check_names)
            return None
        # scalars
        if isinstance(want, float) or isinstance(got, float) or isinstance(want, np.floating):
            if pd.isna(want) and pd.isna(got):
                return None
            if pd.isna(want) != pd.isna(got):
                return f"scalar {got!r} != {want!r}"
            return None if np.isclose(got, want, rtol=rtol, atol=1e-12) else f"scalar {got!r} != {want!r}"
        if pd.isna(want) is True and pd.isna(got) is True:
            return None
        return None if got == want else f"scalar {got!r} != {want!r}"
    except AssertionError as e:
        return " ".join(str(e).split())[:400]
    except Exception as e:  # noqa: BLE001
        return f"comparison raised {e!r}"[:400]


def _sorted_rows(df, with_index=True):
    df = df.copy()
    key_cols = list(df.columns)
    if with_index:
        names = [n if n is not None else f"__idx{i}__" for i, n in enumerate(df.index.names)]
        tmp = df.reset_index(names=names) if hasattr(df.reset_index, "__call__") else df
        tmp.columns = [str(c) for c in tmp.columns]
        order = tmp.astype(object).apply(lambda r: tuple(("~" if pd.isna(v) else repr(v)) for v in r), axis=1)
        pos = np.argsort(order.values, kind="stable")
        return df.iloc[pos]
    order = df.astype(object).apply(lambda r: tuple(("~" if pd.isna(v) else repr(v)) for v in r), axis=1)
    pos = np.argsort(order.values, kind="stable")
    return df.iloc[pos]


# ------------------------------------------------------------------ invariants shared by C41 / C42
def divisions_problem(d):
    """C41: known divisions describe the partitions truthfully"""
    try:
        if not d.known_divisions:
            return None
        div = d.divisions
        if len(div) != d.npartitions + 1:
            return f"npartitions {d.npartitions} != len(divisions)-1 {len(div) - 1}"
        parts = dask.compute(*[d.partitions[i] for i in range(d.npartitions)])
        for i, p in enumerate(parts):
            if len(p) == 0:
                continue
            lo, hi = p.index.min(), p.index.max()
            last = i == d.npartitions - 1
            if lo < div[i] or (hi > div[i + 1]) or (not last and hi >= div[i + 1]):
                return f"partition {i} has index range [{lo!r}, {hi!r}] outside divisions [{div[i]!r}, {div[i + 1]!r}{']' if last else ')'}"
        return None
    except PyArrowUnavailable:
        return None
    except Exception as e:  # noqa: BLE001
        return f"divisions check raised {e!r}"[:300]


def meta_problem(d, computed=None):
    """C42: ._meta agrees with the computed object (type, columns, dtypes, index name/dtype)"""
    try:
        meta = d._meta
        if computed is None:
            computed = d.compute()
        if isinstance(meta, pd.DataFrame):
            if not isinstance(computed, pd.DataFrame):
                return f"meta is DataFrame, computed {type(computed).__name__}"
            if list(meta.columns) != list(computed.columns):
                return f"meta columns {list(meta.columns)} != computed {list(computed.columns)}"
            bad = [(c, str(meta.dtypes.iloc[i]), str(computed.dtypes.iloc[i])) for i, c in enumerate(meta.columns) if meta.dtypes.iloc[i] != computed.dtypes.iloc[i]]
            if bad:
                return f"meta dtypes differ: {bad}"
        elif isinstance(meta, pd.Series):
            if not isinstance(computed, pd.Series):
                return f"meta is Series, computed {type(computed).__name__}"
            if meta.dtype != computed.dtype:
                return f"meta dtype {meta.dtype} != computed {computed.dtype}"
            if meta.name != computed.name:
                return f"meta name {meta.name!r} != computed {computed.name!r}"
        elif isinstance(meta, pd.Index):
            if not isinstance(computed, pd.Index):
                return f"meta is Index, computed {type(computed).__name__}"
            if meta.dtype != computed.dtype:
                return f"meta dtype {meta.dtype} != computed {computed.dtype}"
        else:
            return None
        if isinstance(meta, (pd.DataFrame, pd.Series)):
            if list(meta.index.names) != list(computed.index.names):
                return f"meta index names {list(meta.index.names)} != computed {list(computed.index.names)}"
            if len(computed) and meta.index.dtype != computed.index.dtype:
                return f"meta index dtype {meta.index.dtype} != computed {computed.index.dtype}"
        return None
    except PyArrowUnavailable:
        return None
    except Exception as e:  # noqa: BLE001
        return f"meta check raised {e!r}"[:300]


DOCUMENTED_REFUSALS = (NotImplementedError,)


def classify_exc(e):
    if isinstance(e, PyArrowUnavailable):
        return "out_of_scope"
    if isinstance(e, NotImplementedError):
        return "rejected"
    msg = str(e)
    if isinstance(e, ValueError) and ("All NaN partition encountered" in msg or "Partition size is less than" in msg):
        return "rejected"
    return "crash"
