"""Shared helpers for the array properties (reference = NumPy on the concatenated data)."""
from __future__ import annotations

import warnings

import numpy as np

import dask
import dask.array as da

dask.config.set(scheduler="sync")


def data(shape, seed=0, dtype="i8", lo=1):
    """array of the given shape filled with a seed-chosen permutation of DISTINCT values"""
    n = int(np.prod(shape)) if len(shape) else 1
    rng = np.random.RandomState(seed)
    vals = rng.permutation(n) + lo
    x = vals.reshape(shape).astype(dtype)
    return x


def sl(t):
    """literal slice encoding ('s', start, stop, step) / other literals -> python index object"""
    if isinstance(t, tuple) and len(t) == 4 and t[0] == "s":
        return slice(t[1], t[2], t[3])
    if isinstance(t, tuple) and len(t) == 2 and t[0] == "a":  # ndarray index
        return np.array(t[1])
    if isinstance(t, tuple) and len(t) == 2 and t[0] == "b":  # boolean ndarray
        return np.array(t[1], dtype=bool)
    if t == "...":
        return Ellipsis
    if t == "None":
        return None
    return t


def index_obj(ix):
    if isinstance(ix, tuple) and not (len(ix) == 4 and ix[0] == "s") and not (len(ix) == 2 and ix[0] in ("a", "b")):
        return tuple(sl(t) for t in ix)
    return sl(ix)


def equal(got, want, exact_dtype=True, rtol=0.0, atol=0.0):
    """-> None if equal else a short reason.  NaN == NaN.  Shape and (optionally) dtype must match."""
    got = np.asanyarray(got) if not isinstance(got, np.ndarray) else got
    want = np.asanyarray(want) if not isinstance(want, np.ndarray) else want
    if got.shape != want.shape:
        return f"shape {got.shape} != {want.shape}"
    if exact_dtype and got.dtype != want.dtype:
        return f"dtype {got.dtype} != {want.dtype}"
    with warnings.catch_warnings():
        warnings.simplefilter("ignore")
        try:
            if rtol or atol:
                ok = np.allclose(got, want, rtol=rtol, atol=atol, equal_nan=True)
            elif got.dtype.kind in "fc" or want.dtype.kind in "fc":
                ok = bool(np.array_equal(got, want, equal_nan=True))
            else:
                ok = bool(np.array_equal(got, want))
        except Exception as e:  # noqa: BLE001
            return f"comparison failed: {e!r}"
    if not ok:
        return f"values {np.array2string(got, threshold=40)} != {np.array2string(want, threshold=40)}"
    return None


def meta_problem(d, computed=None):
    """C25-style invariant for a dask array: lazy shape/dtype/chunks consistent with the computed data"""
    try:
        chunks = d.chunks
        if any(np.isnan(c) for ax in chunks for c in ax):
            return None
        if tuple(sum(ax) for ax in chunks) != tuple(d.shape):
            return f"chunks {chunks} do not sum to shape {d.shape}"
        if computed is None:
            computed = d.compute()
        computed = np.asanyarray(computed)
        if computed.shape != tuple(d.shape):
            return f"computed shape {computed.shape} != lazy {d.shape}"
        if computed.dtype != d.dtype:
            return f"computed dtype {computed.dtype} != lazy {d.dtype}"
    except Exception as e:  # noqa: BLE001
        return f"metadata check raised {e!r}"
    return None


def block_shapes_problem(d):
    """every block computed alone has the declared chunk shape"""
    import itertools

    try:
        for idx in itertools.product(*[range(len(c)) for c in d.chunks]):
            want = tuple(c[i] for c, i in zip(d.chunks, idx))
            if any(np.isnan(w) for w in want):
                continue
            b = np.asanyarray(d.blocks[idx].compute())
            if b.shape != want:
                return f"block {idx} has shape {b.shape}, declared {want}"
    except Exception as e:  # noqa: BLE001
        return f"block check raised {e!r}"
    return None


REFUSALS = (NotImplementedError,)


def classify_exc(e):
    """documented refusals are 'rejected', everything else is a crash"""
    return "rejected" if isinstance(e, REFUSALS) else "crash"


def compute_blocks(d):
    """Compute ALL blocks of d in one optimized pass -> (assembled ndarray, problem|None).
    Checks that every block has exactly the declared chunk shape (NaN-declared axes skipped)
    and that the blocks placed by index reassemble to the lazy shape."""
    import itertools

    from dask.core import flatten

    keys = d.__dask_keys__()
    dsk = d.__dask_optimize__(d.__dask_graph__(), keys)
    flat = list(flatten(keys))
    vals = dask.get(dsk, flat)
    nb = d.numblocks
    if d.ndim == 0:
        v = np.asanyarray(vals[0])
        return v, (None if v.shape == () else f"0-d block has shape {v.shape}")
    grid = np.empty(nb, dtype=object)
    problem = None
    for idx, v in zip(itertools.product(*[range(k) for k in nb]), vals):
        v = np.asanyarray(v)
        want = tuple(c[i] for c, i in zip(d.chunks, idx))
        if v.ndim != len(want) or any((not np.isnan(w)) and w != s for w, s in zip(want, v.shape)):
            problem = problem or f"block {idx} has shape {v.shape}, declared {want}"
        grid[idx] = v
    try:
        if grid.size == 0:
            out = np.empty(tuple(0 if np.isnan(s) else int(s) for s in d.shape), dtype=d.dtype)
        else:
            out = np.block(grid.tolist())
    except Exception as e:  # noqa: BLE001
        return None, problem or f"blocks do not tile: {e!r}"
    known_shape = not any(np.isnan(s) for s in d.shape)
    if problem is None and known_shape and out.shape != tuple(d.shape):
        problem = f"assembled shape {out.shape} != lazy {d.shape}"
    if problem is None and known_shape and tuple(sum(c) for c in d.chunks) != tuple(d.shape):
        problem = f"chunks {d.chunks} do not sum to shape {d.shape}"
    return out, problem
