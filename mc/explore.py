"""E1 -- stateless, replay-based choice-point explorer (CHESS style).

The system under test calls chooser.choose(n) wherever the environment decides.
explore(run, bound) enumerates EVERY sequence of choices (bound=None) or every sequence
with at most `bound` deviations from the default choice 0 (FIFO / oldest pending).
Each complete execution is produced exactly once.
"""
from __future__ import annotations


class ReplayDivergence(Exception):
    """A recorded choice prefix no longer fits the execution: hard error (nondeterminism)."""


class Chooser:
    __slots__ = ("prefix", "points")

    def __init__(self, prefix=()):
        self.prefix = list(prefix)
        self.points = []  # (n_enabled, chosen)

    def choose(self, n, label=None):
        i = len(self.points)
        if i < len(self.prefix):
            c = self.prefix[i]
            if c >= n:
                raise ReplayDivergence(f"choice {i}: recorded {c} but only {n} enabled")
        else:
            c = 0
        self.points.append((n, c))
        return c

    @property
    def choices(self):
        return [c for _, c in self.points]


def explore(run, bound=None, max_execs=None):
    """run(chooser) -> observation.  Yields (chooser, observation) for every execution."""
    stack = [[]]
    n = 0
    while stack:
        prefix = stack.pop()
        ch = Chooser(prefix)
        obs = run(ch)
        if len(ch.points) < len(prefix):
            raise ReplayDivergence("execution ended before the recorded prefix was consumed")
        yield ch, obs
        n += 1
        if max_execs is not None and n >= max_execs:
            return
        dev = sum(1 for c in prefix if c)
        if bound is not None and dev + 1 > bound:
            continue
        choices = ch.choices
        for i in range(len(prefix), len(ch.points)):
            ni = ch.points[i][0]
            for alt in range(1, ni):
                stack.append(choices[:i] + [alt])
