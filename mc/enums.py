"""E4 -- deterministic small-scope enumerators with exact sizes."""
from __future__ import annotations

import itertools


def compositions(n):
    """all ordered tuples of positive ints summing to n  (2^(n-1) for n>=1; ((),) for n=0)"""
    if n == 0:
        yield ()
        return
    for bits in range(1 << (n - 1)):
        out, cur = [], 1
        for i in range(n - 1):
            if bits >> i & 1:
                out.append(cur)
                cur = 1
            else:
                cur += 1
        out.append(cur)
        yield tuple(out)


def compositions_with_zeros(n, maxparts):
    """all tuples of 1..maxparts non-negative ints summing to n (empty partitions allowed)"""
    for k in range(1, maxparts + 1):
        for cuts in itertools.combinations_with_replacement(range(n + 1), k - 1):
            b = (0,) + cuts + (n,)
            yield tuple(b[i + 1] - b[i] for i in range(k))


def chunkings(shape, zero_len_ok=True):
    """every chunking (tuple of per-axis compositions) of an n-d shape; a 0-length axis has the single chunking (0,)"""
    per_axis = []
    for n in shape:
        per_axis.append([(0,)] if n == 0 else list(compositions(n)))
    return itertools.product(*per_axis)


def slices(n, steps=(None, 1, 2, 3, -1, -2, -3), lo=None, hi=None):
    """all slice triples (start, stop, step) with start/stop in {None} U [-n-1, n+1]"""
    lo = -n - 1 if lo is None else lo
    hi = n + 1 if hi is None else hi
    vals = [None] + list(range(lo, hi + 1))
    for a in vals:
        for b in vals:
            for s in steps:
                yield (a, b, s)


def index_vectors(n, maxlen):
    for L in range(0, maxlen + 1):
        yield from itertools.product(range(-n, n), repeat=L)


def masks(n):
    return itertools.product((False, True), repeat=n)


def sorted_seqs(alphabet, maxlen):
    for L in range(0, maxlen + 1):
        yield from itertools.combinations_with_replacement(alphabet, L)


def strings(alphabet, maxlen, minlen=0):
    for L in range(minlen, maxlen + 1):
        for t in itertools.product(alphabet, repeat=L):
            yield t


def split_round_robin(items, k):
    """deterministic split of a list into k shards (simplest first inside each)"""
    return [items[i::k] for i in range(k)]
