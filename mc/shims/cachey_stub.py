"""Environment double for the absent `cachey` package (dask.cache.Cache only needs `nbytes` and a cache object with
.data / .put).  The real Cache callback code in dask/cache.py runs unmodified against it."""
import sys
import types


class Cache:
    def __init__(self, available_bytes=1e9, *args, **kwargs):
        self.data = {}
        self.available_bytes = available_bytes

    def put(self, key, value, cost, nbytes=None):
        self.data[key] = value

    def get(self, key, default=None):
        return self.data.get(key, default)


def nbytes(x):
    return sys.getsizeof(x)


def install():
    if "cachey" not in sys.modules:
        m = types.ModuleType("cachey")
        m.Cache = Cache
        m.nbytes = nbytes
        sys.modules["cachey"] = m
