"""Hollow pyarrow stand-in so that the pandas-backed dask.dataframe engine can be imported in a
sandbox without pyarrow (DESIGN section 3).  install() must be called BEFORE importing
dask.dataframe; pandas is imported first so that pandas itself decides "no pyarrow".  After
dask.dataframe is imported the stub turns STRICT: any use of a pyarrow attribute raises
PyArrowUnavailable, and a case that ends there is counted out_of_scope, never pass/violation."""
from __future__ import annotations

import importlib.machinery
import os
import sys
import types


class PyArrowUnavailable(Exception):
    pass


_STRICT = False


class _Inert:
    """inert class usable as base class / isinstance target while importing"""

    def __init__(self, *a, **k):
        if _STRICT:
            raise PyArrowUnavailable("pyarrow is not installed in this sandbox (stub)")

    def __init_subclass__(cls, **k):
        pass


class _StubModule(types.ModuleType):
    def __getattr__(self, name):
        if name.startswith("__"):
            raise AttributeError(name)
        if _STRICT:
            raise PyArrowUnavailable(f"pyarrow.{name} is not available in this sandbox (stub)")
        cls = type(name, (_Inert,), {})
        setattr(self, name, cls)
        return cls


def install():
    global _STRICT
    if "dask.dataframe" in sys.modules and "pyarrow" in sys.modules:
        return
    import pandas  # noqa: F401  (first: pandas decides on its own that pyarrow is missing)

    site = os.path.join(os.path.dirname(__file__), "site")
    if site not in sys.path:
        sys.path.append(site)
    names = ["pyarrow", "pyarrow.fs", "pyarrow.dataset", "pyarrow.parquet", "pyarrow.compute", "pyarrow.lib", "pyarrow.orc", "pyarrow.csv", "pyarrow.json"]
    for n in names:
        m = _StubModule(n)
        m.__version__ = "16.0.0"
        m.__path__ = []
        m.__spec__ = importlib.machinery.ModuleSpec(n, None)
        sys.modules[n] = m
    for n in names[1:]:
        setattr(sys.modules["pyarrow"], n.split(".")[1], sys.modules[n])
    import dask

    dask.config.set({"dataframe.convert-string": False})
    import dask.dataframe  # noqa: F401

    _STRICT = True
