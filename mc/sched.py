"""E2 -- scheduler harness: controlled executor, patched queue_get, graph universe,
reference evaluator and bookkeeping model, recorder callbacks.

The only concurrency of dask's local schedulers is *which submitted batch is dequeued
next* (DESIGN G3).  ControlledExecutor.submit stores the batch; the patched
dask.local.queue_get asks the explorer which pending batch completes now and runs it with
the real batch_execute_tasks, so the real get_async / fire_tasks / finish_task /
release_data run unmodified for every enumerated completion order.
"""
from __future__ import annotations

import itertools
from concurrent.futures import Executor, Future

import dask
import dask.local as dlocal

from mc.explore import Chooser

LOG = []  # task-body execution log (appended by F.__call__), cleared per execution


class Deadlock(Exception):
    pass


class UserErr(Exception):
    def __init__(self, msg, extra=None):
        super().__init__(msg, extra)
        self.msg, self.extra = msg, extra

    def __str__(self):
        return f"{self.msg}"


class UserBase(BaseException):
    pass


def _make_twin():
    class UserErr(KeyError):  # a DIFFERENT class that happens to share the name of sched.UserErr
        pass

    return UserErr


TwinErr = _make_twin()


class Unpicklable(Exception):
    def __init__(self, msg):
        super().__init__(msg)
        self.payload = lambda: None  # cannot be pickled by plain pickle

    def __reduce__(self):
        raise TypeError("cannot pickle Unpicklable")


EXC_KINDS = {
    "V": lambda k: ValueError(f"msg-{k}"),
    "U": lambda k: UserErr(f"msg-{k}", extra=(k, "x")),
    "B": lambda k: UserBase(f"msg-{k}"),
    "P": lambda k: Unpicklable(f"msg-{k}"),
    "W": lambda k: TwinErr(f"msg-{k}"),
}


class F:
    """Structural task body: returns its own evaluation tree, logs execution."""

    __slots__ = ("k", "fail")

    def __init__(self, k, fail=None):
        self.k, self.fail = k, fail

    def __call__(self, *args):
        LOG.append(self.k)
        if self.fail:
            raise EXC_KINDS[self.fail](self.k)
        return ("r", self.k, args)

    def __reduce__(self):
        return (F, (self.k, self.fail))

    def __repr__(self):
        return f"F({self.k})"


class ControlledExecutor(Executor):
    def __init__(self, max_workers, legacy=False):
        self._max_workers = max_workers
        self.legacy = legacy  # emulate multiprocessing.pool workers: they only catch Exception; a BaseException kills the worker and the job never completes
        self.pending = []  # (future, fn, args, kwargs)
        self.submitted = []  # list of batches: list of keys
        self.max_pending = 0

    def submit(self, fn, *args, **kwargs):
        fut = Future()
        self.pending.append((fut, fn, args, kwargs))
        self.max_pending = max(self.max_pending, len(self.pending))
        try:
            self.submitted.append([a[0] for a in args[0]])
        except Exception:  # noqa: BLE001
            self.submitted.append(None)
        return fut

    def complete(self, i):
        fut, fn, args, kwargs = self.pending.pop(i)
        try:
            res = fn(*args, **kwargs)
        except Exception as e:  # noqa: BLE001  (what a real pool does)
            fut.set_exception(e)
        except BaseException as e:  # noqa: BLE001
            if self.legacy:
                return  # worker died; the future is never resolved
            fut.set_exception(e)
        else:
            fut.set_result(res)


class Harness:
    """Context manager that patches dask.local.queue_get for one execution."""

    def __init__(self, executor: ControlledExecutor, chooser: Chooser, on_choice=None):
        self.ex, self.ch, self.on_choice = executor, chooser, on_choice
        self.dequeues = 0

    def _queue_get(self, q):
        while q.empty():
            if not self.ex.pending:
                raise Deadlock("scheduler waits on an empty queue with nothing pending")
            n = len(self.ex.pending)
            i = self.ch.choose(n) if n > 1 else 0
            if self.on_choice:
                self.on_choice(n, i)
            self.ex.complete(i)
        self.dequeues += 1
        return q.get()

    def __enter__(self):
        self._orig = dlocal.queue_get
        dlocal.queue_get = self._queue_get
        return self

    def __exit__(self, *a):
        dlocal.queue_get = self._orig


# --------------------------------------------------------------------------- graphs
KINDS0 = "td"  # no dependencies: task / literal data
KINDS1 = "talnm"  # one dependency: task / alias / list-node / nested-list argument
KINDS2 = "tlnm"  # >= 2 dependencies  (kind "u" = reference inside a non-task tuple is excluded: see DESIGN C01 note, judged under C09)


def deps_of(n, mask):
    """mask bit for pair (j<i) at index i*(i-1)/2 + j"""
    out = []
    for i in range(n):
        base = i * (i - 1) // 2
        out.append([j for j in range(i) if mask >> (base + j) & 1])
    return out


def key_of(style, i):
    if style == "int":
        return i
    if style == "tup":
        return ("x", i)
    return f"k{i}"


def kind_assignments(deps, alphabet="tdalnm", max_special=None):
    opts = []
    for d in deps:
        base = KINDS0 if not d else (KINDS1 if len(d) == 1 else KINDS2)
        opts.append([c for c in base if c in alphabet])
    for ks in itertools.product(*opts):
        if max_special is not None and sum(1 for c in ks if c not in "td") > max_special:
            continue
        yield "".join(ks)


def build_graph(n, mask, kinds, style="int", rev=False, fail=None):
    """-> (dsk, keys list).  fail: dict node index -> exception kind"""
    deps = deps_of(n, mask)
    fail = fail or {}
    K = [key_of(style, i) for i in range(n)]
    items = []
    for i in range(n):
        d = [K[j] for j in deps[i]]
        c = kinds[i]
        if c == "t":
            v = (F(i, fail.get(i)), *d)
        elif c == "d":
            v = 100 + i
        elif c == "a":
            v = d[0]
        elif c == "l":
            v = list(d)
        elif c == "n":
            v = (F(i, fail.get(i)), list(d))
        elif c == "m":
            v = (F(i, fail.get(i)), {f"p{q}": dk for q, dk in enumerate(d)})  # dict argument, evaluated elementwise
        elif c == "u":
            v = (F(i, fail.get(i)), (5, *d))  # non-callable head => tuple literal with references
        else:
            raise ValueError(c)
        items.append((K[i], v))
    if rev:
        items.reverse()
    return dict(items), K


def ref_values(n, mask, kinds):
    deps = deps_of(n, mask)
    val = [None] * n
    for i in range(n):
        d = [val[j] for j in deps[i]]
        c = kinds[i]
        if c == "t":
            val[i] = ("r", i, tuple(d))
        elif c == "d":
            val[i] = 100 + i
        elif c == "a":
            val[i] = d[0]
        elif c == "l":
            val[i] = list(d)
        elif c == "n":
            val[i] = ("r", i, (list(d),))
        elif c == "m":
            val[i] = ("r", i, ({f"p{q}": dv for q, dv in enumerate(d)},))
        elif c == "u":
            val[i] = ("r", i, ((5, *d),))
    return val


def needed(n, mask, req):
    deps = deps_of(n, mask)
    seen, stack = set(), list(req)
    while stack:
        i = stack.pop()
        if i in seen:
            continue
        seen.add(i)
        stack.extend(deps[i])
    return seen


def pack(req_form, val):
    if isinstance(req_form, list):
        return tuple(pack(r, val) for r in req_form)
    return val[req_form]


def req_keys(req_form, K):
    if isinstance(req_form, list):
        return [req_keys(r, K) for r in req_form]
    return K[req_form]


def flat(req_form):
    if isinstance(req_form, list):
        out = []
        for r in req_form:
            out.extend(flat(r))
        return out
    return [req_form]


def request_forms(n, nested=True):
    """all non-empty subsets as flat lists, every single key as a scalar, a few nestings"""
    out = [[], [[]]]  # the empty request and an empty nesting: nothing is needed, nothing may run
    for r in range(1, n + 1):
        for sub in itertools.combinations(range(n), r):
            out.append(list(sub))
    for i in range(n):
        out.append(i)
    if nested and n >= 2:
        out.append([[n - 1], list(range(n - 1))])
        out.append([[n - 1, 0], [[n - 1]]])
    return out


# --------------------------------------------------------------------------- recorder
class Recorder:
    """Callback tuple that snapshots the scheduler state at every callback."""

    def __init__(self):
        self.events = []  # (kind, key, snapshot)

    @staticmethod
    def snap(state):
        g = state.get
        return (
            frozenset(g("cache", ())),
            frozenset(g("released", ())),
            frozenset(g("finished", ())),
            frozenset(g("running", ())),
            tuple(g("ready", ())),
            frozenset(g("waiting", ())),
        )

    def start(self, dsk):
        self.events.append(("start", None, None))

    def start_state(self, dsk, state):
        self.events.append(("start_state", None, self.snap(state)))

    def pretask(self, key, dsk, state):
        self.events.append(("pre", key, self.snap(state)))

    def posttask(self, key, result, dsk, state, wid):
        self.events.append(("post", key, self.snap(state)))

    def finish(self, dsk, state, failed):
        self.events.append(("finish", bool(failed), self.snap(state) if state else None))

    @property
    def tuple(self):
        return (self.start, self.start_state, self.pretask, self.posttask, self.finish)


ENTRIES = ("async", "threaded", "mp", "mp_noopt", "executor", "sync")


def run_entry(entry, dsk, keys, nworkers, chunksize, chooser, callbacks=None, on_choice=None, cache=None, legacy=False):
    """One execution of a real scheduler entry point under the controlled executor.
    -> (status, value_or_exc, executor, harness)"""
    ex = ControlledExecutor(nworkers, legacy=legacy)
    del LOG[:]
    kw = {}
    if cache is not None:
        kw["cache"] = cache
    if callbacks is not None:
        kw["callbacks"] = callbacks
    with Harness(ex, chooser, on_choice) as h:
        try:
            if entry == "async":
                v = dlocal.get_async(ex.submit, nworkers, dsk, keys, chunksize=chunksize, **kw)
            elif entry == "sync":
                v = dask.get(dsk, keys, **kw)
            elif entry == "threaded":
                import dask.threaded as _t

                v = _t.get(dsk, keys, pool=ex, chunksize=chunksize, **kw)
            elif entry in ("mp", "mp_noopt"):
                import dask.multiprocessing as _m

                v = _m.get(
                    dsk, keys, pool=ex, chunksize=chunksize, optimize_graph=(entry == "mp"), **kw
                )
            elif entry == "executor":
                from dask.base import get_scheduler

                get = get_scheduler(scheduler=ex)
                v = get(dsk, keys, chunksize=chunksize, **kw)
            else:
                raise ValueError(entry)
            return "ok", v, ex, h
        except Deadlock as e:
            return "deadlock", e, ex, h
        except BaseException as e:  # noqa: BLE001
            from mc.run import Hang

            if isinstance(e, (Hang, KeyboardInterrupt)):
                raise
            return "exc", e, ex, h


# --------------------------------------------------------------------------- conformance (G3)
SCHED_FUNCS = {"get_async", "fire_tasks", "finish_task", "release_data", "start_state_from_dask", "nested_get"}


def thread_affinity_check(graphs):
    """Run graphs on the REAL ThreadPoolExecutor under threading.settrace and assert that no
    scheduler-state function ever executes on a worker thread (binds the model to the code:
    the dequeue order is then the only scheduling nondeterminism).  Also compares the real
    pool's and dask.get's results with the reference."""
    import sys
    import threading

    import dask.threaded
    from concurrent.futures import ThreadPoolExecutor

    main = threading.get_ident()
    offenders = []
    local_file = dlocal.__file__

    def tracer(frame, event, arg):
        if event == "call":
            co = frame.f_code
            if co.co_filename == local_file and co.co_name in SCHED_FUNCS and threading.get_ident() != main:
                offenders.append(co.co_name)
        return None

    checked = 0
    mismatches = []
    pool = ThreadPoolExecutor(3)
    threading.settrace(tracer)
    try:
        for n, mask, kinds, style in graphs:
            dsk, K = build_graph(n, mask, kinds, style)
            want = ref_values(n, mask, kinds)
            got = dask.threaded.get(dsk, list(K), pool=pool)
            got2 = dask.get(dsk, list(K))
            if list(got) != want or list(got2) != want:
                mismatches.append((n, mask, kinds, style))
            checked += 1
    finally:
        threading.settrace(None)
        pool.shutdown()
    return {"graphs_on_real_threadpool": checked, "scheduler_frames_on_worker_threads": len(offenders), "mismatches": mismatches[:3]}
